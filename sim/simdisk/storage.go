package simdisk

import (
	"bytes"
	"errors"
	"io"
	"os"
	"sort"
	"sync"

	"github.com/syndtr/goleveldb/leveldb"
	"github.com/syndtr/goleveldb/leveldb/filter"
	"github.com/syndtr/goleveldb/leveldb/opt"
	"github.com/syndtr/goleveldb/leveldb/storage"
)

// Storage is an in-memory goleveldb storage that can be cloned at any instant:
// the clone holds exactly the bytes written so far (what a dying process leaves on
// disk). Real goleveldb runs on top of it.
type Storage struct {
	mu    sync.Mutex
	files map[storage.FileDesc]*memFile
	meta  storage.FileDesc
	lock  *stLock
}

type memFile struct {
	data []byte
}

type stLock struct{ s *Storage }

func (l *stLock) Unlock() {
	l.s.mu.Lock()
	if l.s.lock == l {
		l.s.lock = nil
	}
	l.s.mu.Unlock()
}

func NewStorage() *Storage { return &Storage{files: map[storage.FileDesc]*memFile{}} }

// Clone copies every file byte for byte. The clone is unlocked.
func (s *Storage) Clone() *Storage {
	s.mu.Lock()
	defer s.mu.Unlock()
	c := NewStorage()
	c.meta = s.meta
	for fd, f := range s.files {
		c.files[fd] = &memFile{data: append([]byte(nil), f.data...)}
	}
	return c
}

// Size returns the total number of bytes stored.
func (s *Storage) Size() int {
	s.mu.Lock()
	defer s.mu.Unlock()
	n := 0
	for _, f := range s.files {
		n += len(f.data)
	}
	return n
}

// ForceUnlock drops the storage lock (the process that held it is dead).
func (s *Storage) ForceUnlock() {
	s.mu.Lock()
	s.lock = nil
	s.mu.Unlock()
}

func (s *Storage) Lock() (storage.Locker, error) {
	s.mu.Lock()
	defer s.mu.Unlock()
	if s.lock != nil {
		return nil, storage.ErrLocked
	}
	s.lock = &stLock{s}
	return s.lock, nil
}

func (s *Storage) Log(str string) {}

func (s *Storage) SetMeta(fd storage.FileDesc) error {
	if !storage.FileDescOk(fd) {
		return storage.ErrInvalidFile
	}
	s.mu.Lock()
	s.meta = fd
	s.mu.Unlock()
	return nil
}

func (s *Storage) GetMeta() (storage.FileDesc, error) {
	s.mu.Lock()
	defer s.mu.Unlock()
	if s.meta.Zero() {
		return storage.FileDesc{}, os.ErrNotExist
	}
	return s.meta, nil
}

func (s *Storage) List(ft storage.FileType) ([]storage.FileDesc, error) {
	s.mu.Lock()
	defer s.mu.Unlock()
	var fds []storage.FileDesc
	for fd := range s.files {
		if fd.Type&ft != 0 {
			fds = append(fds, fd)
		}
	}
	sort.Slice(fds, func(i, j int) bool {
		if fds[i].Type != fds[j].Type {
			return fds[i].Type < fds[j].Type
		}
		return fds[i].Num < fds[j].Num
	})
	return fds, nil
}

type stReader struct {
	*bytes.Reader
}

func (stReader) Close() error { return nil }

func (s *Storage) Open(fd storage.FileDesc) (storage.Reader, error) {
	if !storage.FileDescOk(fd) {
		return nil, storage.ErrInvalidFile
	}
	s.mu.Lock()
	defer s.mu.Unlock()
	f, ok := s.files[fd]
	if !ok {
		return nil, os.ErrNotExist
	}
	// readers see the bytes present at open time (tables are immutable once written;
	// journals are only re-read at recovery)
	return stReader{bytes.NewReader(append([]byte(nil), f.data...))}, nil
}

type stWriter struct {
	s *Storage
	f *memFile
}

func (w *stWriter) Write(p []byte) (int, error) {
	w.s.mu.Lock()
	w.f.data = append(w.f.data, p...)
	w.s.mu.Unlock()
	return len(p), nil
}
func (w *stWriter) Sync() error  { return nil }
func (w *stWriter) Close() error { return nil }

func (s *Storage) Create(fd storage.FileDesc) (storage.Writer, error) {
	if !storage.FileDescOk(fd) {
		return nil, storage.ErrInvalidFile
	}
	s.mu.Lock()
	defer s.mu.Unlock()
	f := &memFile{}
	s.files[fd] = f
	return &stWriter{s, f}, nil
}

func (s *Storage) Remove(fd storage.FileDesc) error {
	s.mu.Lock()
	defer s.mu.Unlock()
	if _, ok := s.files[fd]; !ok {
		return os.ErrNotExist
	}
	delete(s.files, fd)
	return nil
}

func (s *Storage) Rename(oldfd, newfd storage.FileDesc) error {
	s.mu.Lock()
	defer s.mu.Unlock()
	f, ok := s.files[oldfd]
	if !ok {
		return os.ErrNotExist
	}
	delete(s.files, oldfd)
	s.files[newfd] = f
	return nil
}

func (s *Storage) Close() error { return nil }

var _ io.Reader = stReader{}

// ---------------------------------------------------------------------------

// Disk is the set of stores of one simulated machine, keyed by path. It outlives node
// incarnations (restart) and can be cloned as a whole (crash image).
type Disk struct {
	mu     sync.Mutex
	Stores map[string]*Storage
	open   map[string]*leveldb.DB
}

func NewDisk() *Disk { return &Disk{Stores: map[string]*Storage{}, open: map[string]*leveldb.DB{}} }

// Clone returns the bytes-on-disk image at this instant.
func (d *Disk) Clone() *Disk {
	d.mu.Lock()
	defer d.mu.Unlock()
	c := NewDisk()
	for p, s := range d.Stores {
		c.Stores[p] = s.Clone()
	}
	return c
}

func (d *Disk) Size() int {
	d.mu.Lock()
	defer d.mu.Unlock()
	n := 0
	for _, s := range d.Stores {
		n += s.Size()
	}
	return n
}

// Open opens real goleveldb on the store for path (created empty when new).
func (d *Disk) Open(path string) (*leveldb.DB, error) {
	d.mu.Lock()
	defer d.mu.Unlock()
	if _, busy := d.open[path]; busy {
		return nil, errors.New("simdisk: store already open: " + path)
	}
	s, ok := d.Stores[path]
	if !ok {
		s = NewStorage()
		d.Stores[path] = s
	}
	s.ForceUnlock()
	db, err := leveldb.Open(s, &opt.Options{
		BlockSize:          64 * opt.KiB,
		BlockCacheCapacity: 1 * opt.MiB,
		WriteBuffer:        4 * opt.MiB,
		Filter:             filter.NewBloomFilter(10),
		NoSync:             true,
	})
	if err != nil {
		return nil, err
	}
	d.open[path] = db
	return db, nil
}

// CloseAll closes the handles of the current incarnation (its bytes stay).
func (d *Disk) CloseAll() {
	d.mu.Lock()
	defer d.mu.Unlock()
	for p, db := range d.open {
		db.Close()
		delete(d.open, p)
	}
}
