package node

import (
	"com.tuntun.rangers/node/src/zzverif/simsched"
	"encoding/json"
	"fmt"
	"math/big"
	"time"

	"com.tuntun.rangers/node/src/common"
	"com.tuntun.rangers/node/src/middleware"
	"com.tuntun.rangers/node/src/middleware/types"
	"com.tuntun.rangers/node/src/storage/account"
	"com.tuntun.rangers/node/src/storage/rlp"
)

// Accounts funded by the dev genesis (1e9 each). Execution trusts Source (signatures
// are checked at pool admission, C07), so the harness can spend from them.
var Funded = []string{
	"0x2f4f09b722a6e5b77be17c9a99c785fa7035a09f",
	"0x42c8c9b13fc0573d18028b3398a887c4297ff646",
	"0x8744c51069589296fcb7faa2f891b1f513a0310c",
	"0x25716527aad0ae1dd24bd247af9232dae78595b0",
}

// Genesis proposer ids of the dev chain (registered miners, so rewards have an account).
var Castors = []string{
	"0x7f88b4f2d36a83640ce5d782a0a20cc2b233de3df2d8a358bf0e7b29e9586a12",
	"0xb26612d2742ab4edd016b354725d045d6627de9b1b2d7c40ae26d2c97af21abd",
}

// EpochTime is the base of simulated protocol time.
var EpochTime = time.Date(2024, 5, 1, 0, 0, 0, 0, time.UTC)

// TransferTx builds an operator asset-transfer transaction (type 100).
func TransferTx(source string, nonce uint64, targets map[string]string, salt string) *types.Transaction {
	m := map[string]types.TransferData{}
	for a, v := range targets {
		m[a] = types.TransferData{Balance: v}
	}
	extra, _ := json.Marshal(m)
	return RawTx(types.TransactionTypeOperatorEvent, source, "", nonce, "", string(extra), salt)
}

// RawTx builds a transaction of any type with its hash set.
func RawTx(typ int32, source, target string, nonce uint64, data, extra, salt string) *types.Transaction {
	tx := &types.Transaction{Source: source, Target: target, Type: typ, Nonce: nonce, Data: data, ExtraData: extra,
		Time: "2024-05-01 00:00:00 " + salt, ChainId: common.ChainId(1)}
	tx.Hash = tx.GenHash()
	return tx
}

// ProveValue is the prove value the block is cast with.
func (spec BlockSpec) ProveValue() *big.Int {
	if !spec.PVWide {
		return big.NewInt(spec.PV)
	}
	v := new(big.Int).Lsh(big.NewInt(spec.PV), 64)
	return v.Or(v, big.NewInt(1<<20-spec.PV))
}

// BlockSpec describes one block to cast on top of a given head.
type BlockSpec struct {
	QN     uint64
	PV     int64
	PVWide bool // prove value = PV<<64 | (1<<20 - PV): full-width like a real VRF output; its low 64 bits order the other way round
	Castor int
	TimeMs int64  // offset of CurTime from EpochTime
	Skip   uint64 // height slots skipped (the block is cast at parent height + 1 + Skip)
	Txs    []*types.Transaction
}

// CastBlock makes the node (whose head is the intended parent) cast, finalise and
// assemble a block exactly as proposer + group member do, without adding it.
func (n *Node) CastBlock(spec BlockSpec) (*types.Block, error) {
	if !simsched.Active() {
		// with asynchronous casting the chain starts a goroutine that executes the block's transactions: run
		// the cast as a scheduler task so that this goroutine is a task too and has ended when we return
		var b *types.Block
		var err error
		res := simsched.Run(simsched.Options{Seed: 0xca57 ^ uint64(spec.PV)<<8 ^ spec.QN<<24 ^ uint64(spec.TimeMs)<<32, Policy: "random", MaxPreempt: -1, MaxSteps: 50000000},
			[]string{"cast"}, []func(){func() { b, err = n.castBlock(spec) }})
		if res.Panic != nil {
			panic(fmt.Sprintf("CastBlock: %v", res.Panic))
		}
		return b, err
	}
	return n.castBlock(spec)
}

func (n *Node) castBlock(spec BlockSpec) (*types.Block, error) {
	for _, tx := range spec.Txs {
		if ok, err := n.Pool.AddTransaction(tx); !ok && err != nil {
			// already pending/executed: fine for sibling blocks re-using a transaction
			_ = err
		}
	}
	top := n.Chain.TopBlock()
	group := n.Groups.GetGroupByHeight(0)
	ts := EpochTime.Add(time.Duration(spec.TimeMs) * time.Millisecond)
	noteSimTime(EpochTime)
	noteSimTime(ts)
	bh, ok := n.Chain.CastBlock(ts, top.Height+1+spec.Skip, spec.ProveValue(), common.Hash{}, spec.QN, common.FromHex(Castors[spec.Castor%len(Castors)]), group.Id)
	if !ok {
		return nil, fmt.Errorf("CastBlock refused")
	}
	if common.IsProposal020() {
		// asynchronous casting: a group member finalises roots and hash by verifying
		if _, code := n.Chain.VerifyBlock(&bh); code != 0 {
			return nil, fmt.Errorf("VerifyBlock code %d", code)
		}
	}
	bh.Signature = []byte{1}
	bh.Random = []byte{2}
	b := n.Chain.GenerateBlock(bh)
	if b == nil {
		if len(bh.Transactions) == 0 {
			h := bh
			return &types.Block{Header: &h}, nil
		}
		return nil, fmt.Errorf("GenerateBlock nil")
	}
	return b, nil
}

// CloneBlock deep-copies a block through the wire codec (what relaying does).
func CloneBlock(b *types.Block) *types.Block {
	raw, err := types.MarshalBlock(b)
	if err != nil {
		panic(err)
	}
	c, err := types.UnMarshalBlock(raw)
	if err != nil {
		panic(err)
	}
	return c
}

var emptyRoot = common.HexToHash("56e81f171bcc55a6ff8345e692c0f86e5b48e01b996cadc001622fb5e363b421")

// WalkState resolves every node reachable from root (account trie, storage tries, code).
func WalkState(root common.Hash) error {
	adb := middleware.AccountDBManagerInstance
	st, err := adb.GetAccountDBByHash(root)
	if err != nil {
		return fmt.Errorf("open state %x: %v", root.Bytes()[:4], err)
	}
	db := st.Database()
	tr, err := db.OpenTrie(root)
	if err != nil {
		return err
	}
	it := tr.NodeIterator(nil)
	for it.Next(true) {
		if !it.Leaf() {
			continue
		}
		var acc account.Account
		if err := rlp.DecodeBytes(it.LeafBlob(), &acc); err != nil {
			return fmt.Errorf("account record: %v", err)
		}
		if acc.Root != (common.Hash{}) && acc.Root != emptyRoot {
			s, err := db.OpenStorageTrie(common.Hash{}, acc.Root)
			if err != nil {
				return fmt.Errorf("storage trie: %v", err)
			}
			sit := s.NodeIterator(nil)
			for sit.Next(true) {
			}
			if sit.Error() != nil {
				return fmt.Errorf("storage trie node: %v", sit.Error())
			}
		}
	}
	return it.Error()
}
