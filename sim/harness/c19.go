package harness

import (
	"bytes"
	"crypto/sha256"
	"encoding/json"
	"fmt"
	"time"

	"com.tuntun.rangers/node/src/common"
	"com.tuntun.rangers/node/src/core"
	"com.tuntun.rangers/node/src/middleware/types"
	"com.tuntun.rangers/node/src/zzverif/node"
	"com.tuntun.rangers/node/src/zzverif/runner"
	"com.tuntun.rangers/node/src/zzverif/simdisk"
	"com.tuntun.rangers/node/src/zzverif/simmap"
	"com.tuntun.rangers/node/src/zzverif/simrt"
	"com.tuntun.rangers/node/src/zzverif/simsched"
)

// C19 — the group chain is a gap-free linked list whose height index matches it.
//
// Simulated system: a booted real node (group chain over real goleveldb on the
// simulated disk, stub CheckGroup). Plan = history of add (valid / wrong predecessor
// / unknown parent / duplicate), remove-last, remove followed by a different group at
// the same height, reads, and restarts; a restart after EVERY operation is
// additionally enumerated from disk images taken at the operation boundaries.

type c19Op struct {
	K   string `json:"k"`             // add addbad remove restart
	G   int    `json:"g,omitempty"`   // group number (id = H("g"+G))
	Bad string `json:"bad,omitempty"` // pre | parent | dup
	G2  int    `json:"g2,omitempty"`  // addpair: second group
	S   uint64 `json:"s,omitempty"`   // addpair: scheduler seed
}

type c19Plan struct {
	Seed uint64  `json:"seed"`
	Ops  []c19Op `json:"ops"`
}

type c19 struct{}

func init() { runner.Register(c19{}) }

func (c19) ID() string    { return "C19" }
func (c19) Level() string { return "fault_enumeration" }

func (c19) Budget(tier string) runner.Budget {
	if tier == "thorough" {
		return runner.Budget{Plans: 12000, PlansPerProc: 25, Wall: 12 * time.Minute}
	}
	return runner.Budget{Plans: 540, PlansPerProc: 10, Wall: 45 * time.Second}
}

func (c19) Describe() runner.Description {
	return runner.Description{
		Rule:        "each history is 3..40 seeded group-chain operations on a booted node: AddGroup(valid successor; its unauthenticated GroupHeight wire field holds the right value, 0, a stale position, a later position or 2^64-1), AddGroup(wrong predecessor / unknown parent / duplicate / a valid successor whose begin time cannot be encoded by the store), two different valid successors submitted concurrently under the seeded scheduler (exactly one may be accepted), remove-last-group (the operation a group-fork switch performs), the chain's own fork-switch removal down to an ancestor 1-3 groups below the top (alone, or racing with the arrival of a valid successor under the seeded scheduler: whichever runs first, the chain must end at the ancestor), restart. After every operation the invariant is checked on the live node AND (fault enumeration, exhaustive per history) on a fresh incarnation booted from the disk image taken right after that operation: LastGroup reachable from genesis by predecessor links, Count = list length, GetGroupByHeight(i) = i-th element for i<count and nil for i in [count,count+3], every listed group retrievable by id, removed ones not, GetSyncGroupsById = next <=5 successors; compared with a slice reference model. evaluations = invariant evaluations (live + restarted). distinct_nontrivial = distinct op-kind sequences containing a remove. Crash points INSIDE save/remove (between their individual store writes) are also booted; the property's quantifier only covers restarts after operations, so those images are only required to boot, and their self-consistency is reported as probes (midop_*), not as violations.",
		Assumptions: []string{"stub ConsensusHelper.CheckGroup accepts every group; group signatures are not what C19 is about", "the sqlite group index (second store) is not read by the oracle and starts empty in every incarnation"},
		Real:        []string{"core/groupchain.go (AddGroup, save, remove, lookups, iterator, sync lookups)", "middleware/db + goleveldb on simulated storage", "middleware/mysql (sqlite group index)", "node boot: middleware, service, core init"},
		Stub:        []string{"ConsensusHelper", "network (not started)", "NTP clock"},
		FaultKinds:  []string{"restart_after_op", "crash_inside_op", "concurrent_add", "wire_height_field_wrong", "fork_switch_removal", "concurrent_add_and_fork_switch"},
		Exhaustive:  true,
	}
}

func c19ID(g int) []byte {
	s := sha256.Sum256([]byte(fmt.Sprintf("group-%d", g)))
	return s[:]
}

func (c19) Gen(seed uint64, tier string) json.RawMessage {
	r := simrt.NewRand(seed)
	p := c19Plan{Seed: seed}
	n := r.Range(3, 12)
	if r.Chance(0.3) {
		n = r.Range(13, 40)
	}
	pRemove := 0.1 + 0.3*r.Float()
	next := 1
	for i := 0; i < n; i++ {
		x := r.Float()
		switch {
		case x < pRemove*0.3:
			// fork switch: every group above an ancestor is removed through the chain's own removal
			p.Ops = append(p.Ops, c19Op{K: "unwind", G: r.Range(1, 3)})
		case x < pRemove:
			p.Ops = append(p.Ops, c19Op{K: "remove"})
		case x < pRemove+0.08:
			p.Ops = append(p.Ops, c19Op{K: "restart"})
		case x < pRemove+0.2:
			p.Ops = append(p.Ops, c19Op{K: "addbad", G: next, Bad: []string{"pre", "parent", "dup", "time"}[r.Intn(4)]})
			next++
		case x < pRemove+0.24 && x >= pRemove+0.2:
			// a fork switch racing with the arrival of a valid successor
			p.Ops = append(p.Ops, c19Op{K: "addunwind", G: next, G2: r.Range(1, 3), S: r.U64()})
			next++
		case x < pRemove+0.3:
			// two different valid successors of the current last group submitted concurrently
			p.Ops = append(p.Ops, c19Op{K: "addpair", G: next, G2: next + 1, S: r.U64()})
			next += 2
		default:
			p.Ops = append(p.Ops, c19Op{K: "add", G: next})
			next++
		}
	}
	b, _ := json.Marshal(p)
	return b
}

type c19Model struct {
	list    [][]byte        // ids in chain order
	removed map[string]bool // ids removed and not re-added
}

func c19Check(n *node.Node, m *c19Model, ev int, when string) *simrt.Violation {
	viol := func(clause, f string, a ...interface{}) *simrt.Violation {
		return simrt.Violationf("C19", clause, when, ev, f, a...)
	}
	gc := n.Groups
	if int(gc.Count()) != len(m.list) {
		return viol("count-wrong", "Count() = %d, list has %d groups", gc.Count(), len(m.list))
	}
	// predecessor walk from LastGroup
	last := gc.LastGroup()
	if last == nil || !bytes.Equal(last.Id, m.list[len(m.list)-1]) {
		return viol("last-group-wrong", "LastGroup() = %x, expected %x", idOf(last), m.list[len(m.list)-1])
	}
	walk := [][]byte{}
	for g := last; g != nil && len(walk) <= len(m.list)+2; {
		walk = append(walk, g.Id)
		if len(g.Header.PreGroup) == 0 {
			break
		}
		g = gc.GetGroupById(g.Header.PreGroup)
	}
	if len(walk) != len(m.list) {
		return viol("list-length-wrong", "predecessor walk from LastGroup has %d groups, expected %d", len(walk), len(m.list))
	}
	for i := range walk {
		if !bytes.Equal(walk[len(walk)-1-i], m.list[i]) {
			return viol("list-content-wrong", "list element %d is %x, expected %x", i, walk[len(walk)-1-i], m.list[i])
		}
	}
	for i, id := range m.list {
		g := gc.GetGroupByHeight(uint64(i))
		if g == nil || !bytes.Equal(g.Id, id) {
			return viol("height-index-wrong", "GetGroupByHeight(%d) = %x, expected %x", i, idOf(g), id)
		}
		if g.GroupHeight != uint64(i) {
			return viol("height-index-wrong", "group at height %d records GroupHeight %d", i, g.GroupHeight)
		}
		if x := gc.GetGroupById(id); x == nil || !bytes.Equal(x.Id, id) {
			return viol("listed-group-not-retrievable", "GetGroupById(%x) = %x", id, idOf(x))
		}
	}
	for i := len(m.list); i <= len(m.list)+3; i++ {
		if g := gc.GetGroupByHeight(uint64(i)); g != nil {
			return viol("height-index-above-count", "GetGroupByHeight(%d) = %x but Count() = %d", i, g.Id, len(m.list))
		}
		if raw := core.SimGroupRaw(uint64(i)); raw != nil && false {
			_ = raw
		}
	}
	for id := range m.removed {
		if g := gc.GetGroupById([]byte(id)); g != nil {
			return viol("removed-group-retrievable", "GetGroupById(%x) still returns a group after its removal", []byte(id))
		}
	}
	for i, id := range m.list {
		got := gc.GetSyncGroupsById(id)
		want := m.list[i+1:]
		if len(want) > 5 {
			want = want[:5]
		}
		if len(got) != len(want) {
			return viol("sync-groups-wrong", "GetSyncGroupsById(element %d) returns %d groups, expected %d", i, len(got), len(want))
		}
		for j := range got {
			if got[j] == nil || !bytes.Equal(got[j].Id, want[j]) {
				return viol("sync-groups-wrong", "GetSyncGroupsById(element %d)[%d] = %x, expected %x", i, j, idOf(got[j]), want[j])
			}
		}
	}
	return nil
}

func idOf(g *types.Group) []byte {
	if g == nil {
		return nil
	}
	return g.Id
}

func (m *c19Model) clone() *c19Model {
	c := &c19Model{removed: map[string]bool{}}
	c.list = append(c.list, m.list...)
	for k := range m.removed {
		c.removed[k] = true
	}
	return c
}

func (c19) Exec(raw json.RawMessage, st *simrt.Stats, log *simrt.Log) *simrt.Violation {
	var p c19Plan
	if err := json.Unmarshal(raw, &p); err != nil {
		panic(runner.InfraError{Msg: "bad plan: " + err.Error()})
	}
	simmap.Seed = simrt.Mix(p.Seed, 0x6d6170) | 1 // seeded map iteration order (instrumented build)
	disk := simdisk.NewDisk()
	n := node.Boot(disk, node.ForksLatest, false)
	m := &c19Model{removed: map[string]bool{}}
	for _, gi := range n.Helper.GenerateGenesisInfo() {
		m.list = append(m.list, gi.Group.Id)
	}
	genesisMembers := n.Groups.GetGroupByHeight(0).Members
	if v := c19Check(n, m, -1, "after-boot"); v != nil {
		return v
	}
	st.Evaluations++

	type image struct {
		disk  *simdisk.Disk
		model *c19Model
		ev    int
		midop bool
		pre   *c19Model
	}
	var images []image
	kinds := ""
	hasRemove := false

	for i, op := range p.Ops {
		st.Ops++
		pre := m.clone()
		var mid []*simdisk.Disk
		node.OnWrite = func(idx int, kind string) { mid = append(mid, disk.Clone()) }
		switch op.K {
		case "add", "addbad":
			g := &types.Group{Id: c19ID(op.G), PubKey: []byte{1, 2, 3}, Signature: []byte{4}, Members: genesisMembers,
				Header: &types.GroupHeader{Parent: m.list[0], PreGroup: m.list[len(m.list)-1], CreateHeight: uint64(10 * op.G), Extends: "sim", BeginTime: time.Unix(1700000000, 0).UTC()}}
			switch op.Bad {
			case "pre":
				if len(m.list) >= 2 {
					g.Header.PreGroup = m.list[len(m.list)-2]
				} else {
					g.Header.PreGroup = c19ID(9999)
				}
			case "parent":
				g.Header.Parent = c19ID(8888)
			case "dup":
				g.Id = m.list[len(m.list)-1]
			case "time":
				// a field outside the header hash that the store cannot encode (JSON refuses years above 9999): the
				// group passes every check and must then be refused without leaving a trace
				g.Header.BeginTime = time.Date(10000+op.G%50, 1, 1, 0, 0, 0, 0, time.UTC)
			}
			g.Header.Hash = g.Header.GenHash()
			// the height field of a group object that arrives from a peer is not covered by the header hash: it
			// may hold anything (0, a stale position, a huge number); the chain assigns the real position
			switch op.G % 4 {
			case 1:
				g.GroupHeight = uint64(len(m.list)) + uint64(op.G%5) + 1
				st.Fault("wire_height_field_wrong")
			case 2:
				g.GroupHeight = 1<<64 - 1
				st.Fault("wire_height_field_wrong")
			case 3:
				if len(m.list) > 1 {
					g.GroupHeight = uint64(len(m.list) - 1)
					st.Fault("wire_height_field_wrong")
				}
			}
			err := n.Groups.AddGroup(g)
			log.Add("%d %s g=%d bad=%s err=%v", i, op.K, op.G, op.Bad, err != nil)
			if op.K == "add" {
				if err != nil {
					return simrt.Violationf("C19", "valid-successor-rejected", "add", i, "AddGroup of a valid successor failed: %v", err)
				}
				m.list = append(m.list, g.Id)
				delete(m.removed, string(g.Id))
			} else if err == nil {
				return simrt.Violationf("C19", "invalid-group-accepted", op.Bad, i, "AddGroup accepted a group with bad %s", op.Bad)
			}
			kinds += "a"
		case "addpair":
			mk := func(gn int) *types.Group {
				g := &types.Group{Id: c19ID(gn), PubKey: []byte{1, 2, 3}, Signature: []byte{4}, Members: genesisMembers,
					Header: &types.GroupHeader{Parent: m.list[0], PreGroup: m.list[len(m.list)-1], CreateHeight: uint64(10 * gn), Extends: "sim", BeginTime: time.Unix(1700000000, 0).UTC()}}
				g.Header.Hash = g.Header.GenHash()
				return g
			}
			g1, g2 := mk(op.G), mk(op.G2)
			var e1, e2 error
			res := simsched.Run(simsched.Options{Seed: op.S, Policy: "random", MaxPreempt: -1, MaxSteps: 200000}, []string{"adder1", "adder2"},
				[]func(){func() { e1 = n.Groups.AddGroup(g1) }, func() { e2 = n.Groups.AddGroup(g2) }})
			if res.Panic != nil {
				return simrt.Violationf("C19", "host-panic", "concurrent-add", i, "%v", res.Panic)
			}
			st.Fault("concurrent_add")
			log.Add("%d addpair g=%d,%d ok=%v,%v", i, op.G, op.G2, e1 == nil, e2 == nil)
			switch {
			case e1 == nil && e2 == nil:
				return simrt.Violationf("C19", "two-successors-of-one-group-accepted", "concurrent-add", i, "two different groups with the same predecessor were both accepted when submitted concurrently")
			case e1 == nil:
				m.list = append(m.list, g1.Id)
			case e2 == nil:
				m.list = append(m.list, g2.Id)
			}
			kinds += "p"
		case "unwind":
			k := op.G
			if k > len(m.list)-1 {
				k = len(m.list) - 1
			}
			if k <= 0 {
				node.OnWrite = nil
				continue
			}
			if !core.SimRemoveFromCommonAncestor(uint64(len(m.list) - 1 - k)) {
				return simrt.Violationf("C19", "remove-failed", "unwind", i, "the ancestor at height %d is not retrievable", len(m.list)-1-k)
			}
			log.Add("%d unwind %d", i, k)
			for j := 0; j < k; j++ {
				m.removed[string(m.list[len(m.list)-1])] = true
				m.list = m.list[:len(m.list)-1]
			}
			kinds += "u"
			hasRemove = true
			st.Fault("fork_switch_removal")
		case "addunwind":
			k := op.G2
			if k > len(m.list)-1 {
				k = len(m.list) - 1
			}
			if k <= 0 {
				node.OnWrite = nil
				continue
			}
			g := &types.Group{Id: c19ID(op.G), PubKey: []byte{1, 2, 3}, Signature: []byte{4}, Members: genesisMembers,
				Header: &types.GroupHeader{Parent: m.list[0], PreGroup: m.list[len(m.list)-1], CreateHeight: uint64(10 * op.G), Extends: "sim", BeginTime: time.Unix(1700000000, 0).UTC()}}
			g.Header.Hash = g.Header.GenHash()
			anc := uint64(len(m.list) - 1 - k)
			var addErr error
			res := simsched.Run(simsched.Options{Seed: op.S, Policy: "random", MaxPreempt: -1, MaxSteps: 400000}, []string{"adder", "fork-switch"},
				[]func(){func() { addErr = n.Groups.AddGroup(g) }, func() { core.SimRemoveFromCommonAncestor(anc) }})
			if res.Panic != nil {
				return simrt.Violationf("C19", "host-panic", "concurrent-add-and-unwind", i, "%v", res.Panic)
			}
			st.Fault("concurrent_add_and_fork_switch")
			// serial outcomes: add then removal (the added group is above the ancestor and goes too), or removal
			// then add (the successor's predecessor is gone: refused). Either way the chain ends at the ancestor;
			// anything else is judged by the structural check below against that list.
			for j := 0; j < k; j++ {
				m.removed[string(m.list[len(m.list)-1])] = true
				m.list = m.list[:len(m.list)-1]
			}
			m.removed[string(g.Id)] = true
			log.Add("%d addunwind g=%d k=%d add-ok=%v count=%d", i, op.G, k, addErr == nil, n.Groups.Count())
			kinds += "w"
			hasRemove = true
		case "remove":
			if len(m.list) <= 1 {
				node.OnWrite = nil
				continue
			}
			ok := core.SimRemoveLastGroup()
			log.Add("%d remove ok=%v", i, ok)
			if !ok {
				return simrt.Violationf("C19", "remove-failed", "remove", i, "remove of the last group failed")
			}
			m.removed[string(m.list[len(m.list)-1])] = true
			m.list = m.list[:len(m.list)-1]
			kinds += "r"
			hasRemove = true
		case "restart":
			node.OnWrite = nil
			n = node.Boot(disk, node.ForksLatest, false)
			st.Fault("restart_after_op")
			log.Add("%d restart", i)
			kinds += "R"
		}
		node.OnWrite = nil
		if v := c19Check(n, m, i, "live-after-"+op.K); v != nil {
			return v
		}
		st.Evaluations++
		images = append(images, image{disk: disk.Clone(), model: m.clone(), ev: i})
		// images strictly inside the operation (all but the last write)
		for j := 0; j+1 < len(mid); j++ {
			images = append(images, image{disk: mid[j], model: m.clone(), pre: pre, ev: i, midop: true})
		}
	}
	// fault enumeration: restart after every operation (and inside operations)
	for _, im := range images {
		if im.midop {
			// outside the property's quantifier (restart after an operation): informational only
			st.Fault("crash_inside_op")
			rn := c19BootNoPanic(im.disk)
			if rn == nil {
				st.Probe("midop_boot_panics")
				continue
			}
			if c19Check(rn, im.model, im.ev, "midop") == nil || c19Check(rn, im.pre, im.ev, "midop") == nil {
				st.Probe("midop_consistent_old_or_new")
			} else {
				st.Probe("midop_inconsistent")
			}
			continue
		}
		rn := node.Boot(im.disk, node.ForksLatest, false)
		st.Fault("restart_after_op")
		if v := c19Check(rn, im.model, im.ev, "restart-after-"+p.Ops[im.ev].K); v != nil {
			return v
		}
		st.Evaluations++
	}
	if hasRemove {
		st.Nontrivial(simrt.HashString(kinds))
	}
	st.State(simrt.HashString(kinds))
	_ = common.Hash{}
	return nil
}

func c19BootNoPanic(d *simdisk.Disk) (n *node.Node) {
	defer func() {
		if r := recover(); r != nil {
			n = nil
		}
	}()
	return node.Boot(d, node.ForksLatest, false)
}

func (c19) Shrink(raw json.RawMessage) []json.RawMessage {
	var p c19Plan
	json.Unmarshal(raw, &p)
	var out []json.RawMessage
	for chunk := len(p.Ops) / 2; chunk >= 1; chunk /= 2 {
		for s := 0; s+chunk <= len(p.Ops); s += chunk {
			q := p
			q.Ops = append(append([]c19Op{}, p.Ops[:s]...), p.Ops[s+chunk:]...)
			b, _ := json.Marshal(q)
			out = append(out, b)
		}
	}
	return out
}
