package harness

import (
	"encoding/json"
	"fmt"
	"time"

	"com.tuntun.rangers/node/src/common"
	"com.tuntun.rangers/node/src/middleware"
	"com.tuntun.rangers/node/src/middleware/types"
	"com.tuntun.rangers/node/src/service"
	"com.tuntun.rangers/node/src/zzverif/node"
	"com.tuntun.rangers/node/src/zzverif/runner"
	"com.tuntun.rangers/node/src/zzverif/simdisk"
	"com.tuntun.rangers/node/src/zzverif/simmap"
	"com.tuntun.rangers/node/src/zzverif/simrt"
	"com.tuntun.rangers/node/src/zzverif/simsched"
	"github.com/anishathalye/porcupine"
)

// Concurrent part of C17: 2-4 client tasks drive one real TxPool under the
// simulator's seeded scheduler. Lock discipline is the node's: mark / unmark run
// under the chain write lock (AddBlockOnChain), pack under the chain read lock
// (CastBlock), add and lookups take no lock (network goroutines).

type c17cOp struct {
	K  string `json:"k"` // add get pack mark unmark
	T  int    `json:"t,omitempty"`
	B  int    `json:"b,omitempty"`
	Ts []int  `json:"ts,omitempty"` // mark: transaction indices of the block
}

type c17cPlan struct {
	Seed    uint64     `json:"seed"`
	NTx     int        `json:"ntx"`
	Gate    bool       `json:"gate,omitempty"` // transactions relayed by the gate (they carry a gate nonce that admission records)
	Clients [][]c17cOp `json:"clients"`
	Sched   struct {
		Seed       uint64 `json:"seed"`
		Policy     string `json:"policy"`
		MaxPreempt int    `json:"max_preempt"`
	} `json:"sched"`
}

func c17cGen(r *simrt.Rand, seed uint64) c17cPlan {
	p := c17cPlan{Seed: seed, NTx: r.Range(2, 6), Gate: r.Chance(0.5)}
	nc := r.Range(2, 4)
	blk := 0
	used := map[int]bool{} // each transaction belongs to at most one block
	var blocks [][]int
	for c := 0; c < nc; c++ {
		var ops []c17cOp
		n := r.Range(2, 9)
		for i := 0; i < n; i++ {
			switch x := r.Intn(100); {
			case x < 40:
				ops = append(ops, c17cOp{K: "add", T: r.Intn(p.NTx)})
			case x < 55:
				ops = append(ops, c17cOp{K: "get", T: r.Intn(p.NTx)})
			case x < 68:
				ops = append(ops, c17cOp{K: "pack"})
			case x < 88:
				var ts []int
				for t := 0; t < p.NTx; t++ {
					if !used[t] && r.Chance(0.45) {
						ts = append(ts, t)
						used[t] = true
					}
				}
				if len(ts) > 0 {
					blk++
					blocks = append(blocks, ts)
					ops = append(ops, c17cOp{K: "mark", B: blk, Ts: ts})
				}
			default:
				if blk > 0 {
					ops = append(ops, c17cOp{K: "unmark", B: r.Range(1, blk)})
				}
			}
		}
		p.Clients = append(p.Clients, ops)
	}
	p.Sched.Seed = r.U64()
	p.Sched.Policy = "random"
	p.Sched.MaxPreempt = []int{-1, -1, 2, 4, 8}[r.Intn(5)]
	return p
}

type c17Event struct {
	client    int
	kind      string
	tx        int
	call, ret int64
	out       bool
	overlapUn bool
}

// per-hash sequential model: 0 absent, 1 pending, 2 executed
type c17In struct {
	kind string
}

var c17Model17 = porcupine.Model{
	Init: func() interface{} { return 0 },
	Step: func(state, input, output interface{}) (bool, interface{}) {
		s := state.(int)
		in := input.(c17In)
		out := output.(bool)
		switch in.kind {
		case "add":
			switch s {
			case 0:
				return out == true, 1
			case 1:
				// two submitters racing on a pending transaction may both be told "accepted": the
				// container holds it once either way; the statement does not forbid it
				return true, 1
			}
			return out == false, s // executed: never accepted again
		case "exists":
			return out == (s != 0), s
		case "executed":
			return out == (s == 2), s
		case "mark":
			return true, 2
		case "unmark":
			if s == 2 {
				return true, 1
			}
			return true, s
		}
		return false, s
	},
	Equal: func(a, b interface{}) bool { return a.(int) == b.(int) },
}

func c17cExec(p c17cPlan, st *simrt.Stats, log *simrt.Log) *simrt.Violation {
	simmap.Seed = simrt.Mix(p.Seed, 0x6d6170) | 1
	disk := simdisk.NewDisk()
	n := node.Boot(disk, node.ForksLatestSync, false)
	common.SetBlockHeight(5)
	pool := n.Pool.(*service.TxPool)
	viol := func(ev int, clause, where, f string, a ...interface{}) *simrt.Violation {
		return simrt.Violationf("C17", clause, where, ev, f, a...)
	}
	var txs []*types.Transaction
	for i := 0; i < p.NTx; i++ {
		tx := node.RawTx(types.TransactionTypeOperatorEvent, node.Account(i%5), "", uint64(i/5), "", "", fmt.Sprintf("c%d", i))
		if p.Gate {
			tx.SubTransactions = []types.UserData{{Address: uint64(i + 1)}}
		}
		txs = append(txs, tx)
	}
	idx := map[common.Hash]int{}
	for i, t := range txs {
		idx[t.Hash] = i
	}
	state, err := middleware.AccountDBManagerInstance.GetAccountDBByHash(n.Chain.TopBlock().StateTree)
	if err != nil {
		panic(runner.InfraError{Msg: err.Error()})
	}
	var seq int64
	var events []c17Event
	marked := map[int]*types.Block{} // under the chain lock
	execNow := map[int]bool{}        // transactions executed on the "chain" right now (under the chain lock)
	var inTask *simrt.Violation
	stamp := func() int64 { seq++; return seq }

	names := make([]string, len(p.Clients))
	bodies := make([]func(), len(p.Clients))
	for ci := range p.Clients {
		ci := ci
		names[ci] = fmt.Sprintf("client%d", ci)
		bodies[ci] = func() {
			for oi, op := range p.Clients[ci] {
				if inTask != nil {
					return
				}
				switch op.K {
				case "add":
					t := txs[op.T%len(txs)]
					c := *t
					call := stamp()
					ok, _ := pool.AddTransaction(&c)
					events = append(events, c17Event{client: ci, kind: "add", tx: op.T % len(txs), call: call, ret: stamp(), out: ok})
				case "get":
					t := txs[op.T%len(txs)]
					call := stamp()
					ex := pool.IsExisted(t.Hash)
					events = append(events, c17Event{client: ci, kind: "exists", tx: op.T % len(txs), call: call, ret: stamp(), out: ex})
					call = stamp()
					e := pool.GetExecuted(t.Hash)
					events = append(events, c17Event{client: ci, kind: "executed", tx: op.T % len(txs), call: call, ret: stamp(), out: e != nil})
				case "pack":
					middleware.RLockBlockchain("sim-pack")
					packed := pool.PackForCast(6, state)
					seen := map[common.Hash]bool{}
					for _, t := range packed {
						if seen[t.Hash] {
							inTask = viol(oi, "pack-duplicate", "concurrent", "client %d: transaction %d packed twice", ci, idx[t.Hash])
						}
						seen[t.Hash] = true
						if execNow[idx[t.Hash]] {
							inTask = viol(oi, "executed-tx-packed-again", "concurrent", "client %d packed transaction %d, which is executed on the chain (its block was added before this pack took the chain lock)", ci, idx[t.Hash])
						}
					}
					middleware.RUnLockBlockchain("sim-pack")
				case "mark":
					middleware.LockBlockchain("sim-mark")
					if marked[op.B] == nil {
						hdr := &types.BlockHeader{Height: uint64(10 + op.B), CurTime: node.EpochTime}
						hdr.Hash = common.BytesToHash([]byte(fmt.Sprintf("cblock-%d", op.B)))
						var btx []*types.Transaction
						var rcs types.Receipts
						for _, ti := range op.Ts {
							t := txs[ti%len(txs)]
							btx = append(btx, t)
							rc := types.NewReceipt(nil, false, 0, hdr.Height, "", t.Source, "")
							rc.TxHash = t.Hash
							rcs = append(rcs, rc)
						}
						call := stamp()
						pool.MarkExecuted(hdr, rcs, btx, nil)
						ret := stamp()
						for _, ti := range op.Ts {
							events = append(events, c17Event{client: ci, kind: "mark", tx: ti % len(txs), call: call, ret: ret})
							execNow[ti%len(txs)] = true
						}
						marked[op.B] = &types.Block{Header: hdr, Transactions: btx}
					}
					middleware.UnLockBlockchain("sim-mark")
				case "unmark":
					middleware.LockBlockchain("sim-unmark")
					if b := marked[op.B]; b != nil {
						call := stamp()
						pool.UnMarkExecuted(b)
						ret := stamp()
						for _, t := range b.Transactions {
							events = append(events, c17Event{client: ci, kind: "unmark", tx: idx[t.Hash], call: call, ret: ret})
							delete(execNow, idx[t.Hash])
						}
						delete(marked, op.B)
					}
					middleware.UnLockBlockchain("sim-unmark")
				}
			}
		}
	}
	var res simsched.Result
	var panicked interface{}
	func() {
		defer func() { panicked = recover() }()
		res = simsched.Run(simsched.Options{Seed: p.Sched.Seed, Policy: p.Sched.Policy, MaxPreempt: p.Sched.MaxPreempt, MaxSteps: 100000}, names, bodies)
	}()
	for _, l := range res.Trace {
		log.Add("sched %s", l)
	}
	if panicked != nil {
		panic(panicked)
	}
	if res.Panic != nil {
		return viol(-1, "host-panic", "concurrent-task", "a client task panicked: %v", res.Panic)
	}
	if res.Deadlock {
		return viol(-1, "deadlock", "concurrent", "the simulated schedule reached a deadlock / step limit after %d steps", res.Steps)
	}
	if inTask != nil {
		return inTask
	}
	st.Evaluations++
	st.Ops += int64(len(events))
	st.Fault("task_switch")
	st.ProbeN("task_switches", int64(res.Switches))
	// quiescence: structure and at-most-once
	pend := map[common.Hash]bool{}
	for _, t := range pool.GetReceived() {
		if pend[t.Hash] {
			return viol(-1, "pending-duplicate", "quiescence", "transaction %d is twice in the pending container", idx[t.Hash])
		}
		pend[t.Hash] = true
	}
	if pool.SimPendingLen() != len(pend) || pool.SimRingLen() != len(pend) {
		return viol(-1, "ring-map-disagrees", "quiescence", "pending container %d entries, distinct %d, ageing map %d", pool.SimPendingLen(), len(pend), pool.SimRingLen())
	}
	for i, t := range txs {
		ex := pool.GetExecuted(t.Hash) != nil
		if ex != execNow[i] {
			return viol(-1, "executed-record-wrong", "quiescence", "transaction %d: executed record present=%v, chain says executed=%v", i, ex, execNow[i])
		}
		if ex && pend[t.Hash] {
			return viol(-1, "executed-tx-pending", "quiescence", "transaction %d is executed on the chain AND pending in the pool (it would be packed again)", i)
		}
	}
	// linearizability of the membership history, per transaction hash
	var unmarks []c17Event
	for _, e := range events {
		if e.kind == "unmark" {
			unmarks = append(unmarks, e)
		}
	}
	byTx := map[int][]porcupine.Operation{}
	for _, e := range events {
		if e.kind != "mark" && e.kind != "unmark" {
			// UnMarkExecuted deletes the executed record and then re-adds: a lookup/add overlapping it may
			// see the transaction absent for a moment; not corruption, so such overlapping ops are not judged
			skip := false
			for _, u := range unmarks {
				if u.tx == e.tx && e.call < u.ret && u.call < e.ret {
					skip = true
				}
			}
			if skip {
				st.Probe("ops_overlapping_unmark_not_judged")
				continue
			}
		}
		byTx[e.tx] = append(byTx[e.tx], porcupine.Operation{ClientId: e.client, Input: c17In{e.kind}, Call: e.call, Output: e.out, Return: e.ret})
	}
	for tx, l := range byTx {
		r := porcupine.CheckOperationsTimeout(c17Model17, l, 10*time.Second)
		if r == porcupine.Unknown {
			st.Probe("porcupine_timeout_inconclusive")
			continue
		}
		if r == porcupine.Illegal {
			return viol(-1, "history-not-linearizable", "membership", "the recorded add/lookup/mark/unmark history of transaction %d (%d operations) has no sequential explanation", tx, len(l))
		}
	}
	st.State(res.Signature)
	if res.Switches >= 2 {
		st.Nontrivial(res.Signature)
	}
	return nil
}

// C17RacePlan generates the i-th concurrent plan of a seed (used by the race-detector stage).
func (c17) RaceFrames() []string { return []string{"/src/service."} }

func (c17) RacePlan(seed uint64, i int) json.RawMessage { return C17RacePlan(seed, i) }

func C17RacePlan(seed uint64, i int) json.RawMessage {
	r := simrt.NewRand(runner.PlanSeed(seed, "C17-race", i))
	p := c17cGen(r, runner.PlanSeed(seed, "C17-race", i))
	p.Gate = true
	p.Sched.MaxPreempt = -1
	b, _ := json.Marshal(struct {
		Mode string   `json:"mode"`
		Conc c17cPlan `json:"conc"`
	}{"conc", p})
	return b
}

func c17cShrink(p c17cPlan) []json.RawMessage {
	var out []json.RawMessage
	emit := func(q c17cPlan) {
		b, _ := json.Marshal(struct {
			Mode string   `json:"mode"`
			Conc c17cPlan `json:"conc"`
		}{"conc", q})
		out = append(out, b)
	}
	for ci, ops := range p.Clients {
		for oi := range ops {
			q := p
			q.Clients = append([][]c17cOp{}, p.Clients...)
			q.Clients[ci] = append(append([]c17cOp{}, ops[:oi]...), ops[oi+1:]...)
			emit(q)
		}
	}
	if p.Sched.Policy != "rtc" {
		q := p
		q.Sched.Policy = "rtc"
		emit(q)
	}
	for _, mp := range []int{0, 1, 2, 3} {
		if p.Sched.MaxPreempt < 0 || p.Sched.MaxPreempt > mp {
			for s := uint64(1); s <= 6; s++ {
				q := p
				q.Sched.MaxPreempt = mp
				q.Sched.Seed = p.Sched.Seed + s
				emit(q)
			}
		}
	}
	return out
}
