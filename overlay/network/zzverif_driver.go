//go:build verif
// +build verif

package network

import (
	"strconv"

	"com.tuntun.rangers/node/src/common"
	"com.tuntun.rangers/node/src/middleware/log"
)

// In-package driver for the deterministic simulator (Go -overlay from /verif/overlay).

var simConn *WorkerConn

// SimInit prepares the receive path without opening any socket.
func SimInit(consensusHandler MsgHandler) {
	idx := strconv.Itoa(common.InstanceIndex)
	p2pLogger = log.GetLoggerByIndex(log.P2PLogConfig, idx)
	bizLogger = log.GetLoggerByIndex(log.P2PBizLogConfig, idx)
	txRcvLogger = log.GetLoggerByIndex(log.TxRcvLogConfig, idx)
	simConn = &WorkerConn{}
	simConn.logger = p2pLogger
	simConn.consensusHandler = consensusHandler
}

// SimDeliver feeds raw bytes into the node's receive path exactly as a websocket
// frame body from peer `from` would be.
func SimDeliver(data []byte, from string) { simConn.handleMessage(data, from) }

// SimMarshalMessage / SimUnmarshalMessage expose the envelope codec.
func SimMarshalMessage(m Message) ([]byte, error)    { return marshalMessage(m) }
func SimUnmarshalMessage(b []byte) (*Message, error) { return unMarshalMessage(b) }
