//go:build verif
// +build verif

package access

import "com.tuntun.rangers/node/src/middleware/log"

// SimInitLogger initialises the package logger (normally done by NewMinerPoolReader).
func SimInitLogger() {
	if logger == nil {
		logger = log.GetLoggerByIndex(log.AccessLogConfig, "")
	}
}

// SimNewMinerPoolReader returns a reader bound to the current incarnation's miner manager (the
// package keeps a process-wide singleton that would otherwise point at a previous incarnation).
func SimNewMinerPoolReader() *MinerPoolReader {
	SimInitLogger()
	minerPoolReaderInstance = nil
	return NewMinerPoolReader()
}
