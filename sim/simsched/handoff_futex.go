//go:build simrace
// +build simrace

package simsched

import (
	"syscall"
	"unsafe"
)

// Hand-off hidden from the race detector (build tag simrace, used together with
// -race): tasks park on a raw futex word inside //go:norace functions and the
// scheduler state is not protected by a mutex (only the token holder touches it).
// The ONLY happens-before edges the detector then sees between tasks are the
// program's own (its mutexes, channels, atomics), so a report is a true data race
// of the code under test on a schedule that is still the plan's.

type parker struct{ word int32 }

func (p *parker) init() {}

const (
	futexWait = 0 | 128 // FUTEX_WAIT | FUTEX_PRIVATE_FLAG
	futexWake = 1 | 128
)

//go:norace
func (p *parker) wake() {
	p.word = 1
	syscall.Syscall6(syscall.SYS_FUTEX, uintptr(unsafe.Pointer(&p.word)), futexWake, 1, 0, 0, 0)
}

//go:norace
func (p *parker) wait() {
	for {
		if p.word != 0 {
			p.word = 0
			return
		}
		syscall.Syscall6(syscall.SYS_FUTEX, uintptr(unsafe.Pointer(&p.word)), futexWait, 0, 0, 0, 0)
	}
}

type schedMu struct{}

func (schedMu) Lock()   {}
func (schedMu) Unlock() {}

// RaceMode reports whether the hand-off is hidden from the race detector.
const RaceMode = true

// Which task is the calling goroutine? A sync.Map here would hand the race detector happens-before
// edges between tasks (its mutex on the miss path); only the token holder runs, so the current task's
// recorded goroutine id is compared instead, in plain (uninstrumented) accesses.

//go:norace
func regTask(t *task) { t.gid = goid() }

//go:norace
func unregTask(t *task) { t.gid = 0 }

func clearTasks() {}

//go:norace
func lookupTask(s *Sim) *task {
	t := s.cur
	if t != nil && t.gid != 0 && t.gid == goid() {
		return t
	}
	return nil
}
