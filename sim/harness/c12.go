package harness

import (
	"bytes"
	ethcrypto "com.tuntun.rangers/node/src/eth_crypto"
	"encoding/hex"
	"encoding/json"
	"fmt"
	"math/big"
	"strings"
	"time"

	"com.tuntun.rangers/node/src/common"
	"com.tuntun.rangers/node/src/middleware"
	"com.tuntun.rangers/node/src/middleware/types"
	"com.tuntun.rangers/node/src/service"
	"com.tuntun.rangers/node/src/zzverif/evmasm"
	"com.tuntun.rangers/node/src/zzverif/model"
	"com.tuntun.rangers/node/src/zzverif/node"
	"com.tuntun.rangers/node/src/zzverif/runner"
	"com.tuntun.rangers/node/src/zzverif/simdisk"
	"com.tuntun.rangers/node/src/zzverif/simmap"
	"com.tuntun.rangers/node/src/zzverif/simrt"
)

// C12 — failed/static EVM frames leave no trace; per-tx scratch state does not leak.
//
// Simulated system: the real block executor + contract executor + EVM on a booted
// node. (a) Call trees: every tree node is a deployed contract whose code performs
// its effects (SSTORE, LOG, value transfer, CREATE), calls its children
// (CALL / CALLCODE / DELEGATECALL / STATICCALL with a gas share) and ends by RETURN,
// REVERT, INVALID, an infinite loop (out of gas) or a stack fault. Each successful
// frame returns a bitmap of the frames of its subtree whose effects must persist, so
// the root's return data carries the ACTUAL outcome of every frame; gas starvation of
// the root or of single frames is this engine's crash-at-an-arbitrary-instruction.
// (b) Cross-transaction: 2-4 transactions executed on one state object; each observes
// transient storage and pays for its (cold or warm) accesses.

type c12Frame struct {
	Kind    string   `json:"kind"`           // call callcode delegate static (how the parent calls this frame); root: call
	Effects []string `json:"fx,omitempty"`   // sstore log pay create
	End     string   `json:"end"`            // return revert invalid oog stackfault
	Gas     uint64   `json:"gas,omitempty"`  // explicit gas share (0 = all but 1/64)
	Kids    []int    `json:"kids,omitempty"` // indices of child frames
}

type c12Plan struct {
	Seed    uint64     `json:"seed"`
	Frames  []c12Frame `json:"frames"` // frame 0 is the root
	RootGas uint64     `json:"root_gas"`
	Cross   int        `json:"cross"` // >0: cross-transaction plan with this many transactions
	// CrossKinds (address-only variant): per transaction "probe" (BALANCE/EXTCODESIZE/EXTCODEHASH of two
	// addresses, no storage access), "create" (a contract that CREATEs a 1-byte contract), "deploy" (a
	// deployment transaction). Empty: the storage/transient/log variant.
	CrossKinds []string `json:"cross_kinds,omitempty"`
	CrossArgs  []int    `json:"cross_args,omitempty"`
	// FC (failed-creation plans): how the init code of an inner CREATE ends ("small" = succeeds, "big" =
	// code deposit cannot be paid, "toolarge", "revert", "invalid"), the endowment, whether the init code
	// pays the sink, and the gas limit of the transaction.
	BigPay  bool   `json:"bigpay,omitempty"` // call trees: the payment unit is 2^64 wei instead of 1 wei (contracts hold 1000 units)
	NodeTx  int    `json:"nodetx,omitempty"` // operator-node plans: 1 = [logging call, node tx], 2 = [node tx alone], 3 = [creation, node tx]
	FC      string `json:"fc,omitempty"`
	FCTop   bool   `json:"fctop,omitempty"` // the creation is a contract-creation transaction, not an inner CREATE
	FCValue uint64 `json:"fc_value,omitempty"`
	FCPay   bool   `json:"fc_pay,omitempty"`
	FCGas   uint64 `json:"fc_gas,omitempty"`
	FC2     bool   `json:"fc2,omitempty"` // CREATE2 instead of CREATE
	// SS (stake-opcode plans): "stake" | "unstake" | "unstakeall" executed by a miner-controlling contract
	// that the root calls by STATICCALL (or, SSPlain, by CALL as a control)
	SS      string `json:"ss,omitempty"`
	SSPlain bool   `json:"ss_plain,omitempty"`
}

type c12 struct{}

func init() { runner.Register(c12{}) }

func (c12) ID() string    { return "C12" }
func (c12) Level() string { return "exploration" }

func (c12) Budget(tier string) runner.Budget {
	if tier == "thorough" {
		return runner.Budget{Plans: 40000, PlansPerProc: 25, Wall: 14 * time.Minute}
	}
	return runner.Budget{Plans: 18000, PlansPerProc: 100, Wall: 45 * time.Second}
}

func (c12) Describe() runner.Description {
	return runner.Description{
		Rule:        "call-tree plans (85%): a seeded tree of 2..14 frames (depth <=5), each a deployed contract with effects (SSTORE of a per-frame slot, SSTORE / clearing of a slot shared by the storage context and committed non-empty beforehand, LOG1, transfer of one unit (1 wei, or 2^64 wei in 30% of the plans) to a sink, transfer of the whole balance to the sink (balance exactly 0), 1-wei payment to the root contract, CREATE of a 1-byte contract), children called by CALL / CALLCODE / DELEGATECALL / STATICCALL with full or limited gas, and an ending (RETURN, REVERT, INVALID, infinite loop, stack fault); the root gas limit is ample or starved at a seeded point. Every successful frame returns the bitmap of frames of its subtree whose effects must persist; the transaction runs through the real block executor. Oracle: final storage of every frame slot, the ordered receipt logs, sink and contract balances, contract nonces and the set of created accounts equal exactly the effects of the frames in the returned bitmap (failed frames and their subtrees contribute nothing); no frame inside a STATICCALL subtree that has effects may report success and nothing from such a subtree may persist; a failed root leaves the whole state as before except fee/nonce of the sender. Failed-creation plans (8%): a contract runs an inner CREATE (40%: CREATE2) whose init code stores, logs and optionally pays out of its endowment and then ends by returning 1 byte / 32 recognisable bytes from a frame that grew its memory beyond 4 KiB, followed by another memory-hungry frame (the deployed code must be exactly those bytes) / 200000 bytes (code deposit unpayable at the lower gas limits) / 250000 bytes (over the size limit) / REVERT / INVALID; the creator records what CREATE pushed; if it reported failure no account, storage, balance or log of the creation frame may remain and the endowment is back with the creator; in 30% of them the same init code is a contract-creation TRANSACTION: a failed one leaves no account and its receipt carries no log, a successful one has all effects. Operator-node plans (3%): the become-a-node-operator transaction (a non-contract type that calls the main node contract through the EVM and reads four logs) alone or behind a logging call / a creation in one block: every receipt carries exactly its own logs. Stake-opcode plans (5%): a contract that is the account of a registered miner executes the node's STAKE / UNSTAKE / UNSTAKEALL opcode inside a STATICCALL (25%: plain CALL as control); its balance and the miner record must be unchanged afterwards; or a contract AUTHs itself with an externally owned account's signature and AUTHCALLs a sink with value inside a STATICCALL: the account's nonce and the sink's balance must be unchanged. Cross-transaction plans (15%): 2-4 identical-shaped transactions in one block, each TLOADs a slot, records it, TSTOREs, touches storage and logs: every transaction must read transient storage empty, pay the same gas (no warm access list inherited), and its receipt must carry exactly its own log; in half of them the transactions only warm ADDRESSES (account-access opcodes, an inner CREATE, a deployment transaction) and every probe transaction not first in the block must use exactly the gas it uses alone in a block on the same parent state. distinct_nontrivial = distinct tree shapes (kinds, endings, effects, gas shares) with at least one failing inner frame.",
		Assumptions: []string{"frame effects use per-frame slots/topics so that every observed value is attributable to one frame", "SELFDESTRUCT only as the ending of a CALL-kind frame (its own contract), beneficiary a sink account"},
		Real:        []string{"vm (EVM call/create/static handling, interpreter, gas)", "executor contract executor", "core/vmexecutor (Prepare, snapshot/revert, receipts)", "storage/account (journal, access list, transient storage, logs)"},
		Stub:        []string{"ConsensusHelper", "network"},
		FaultKinds:  []string{"frame_selfdestruct", "gas_starvation_root", "gas_starvation_frame", "frame_revert", "frame_invalid", "frame_oog", "frame_stackfault", "static_context", "same_block_second_tx", "inner_create_small", "inner_create_big", "inner_create_toolarge", "inner_create_revert", "inner_create_invalid", "stake_opcode_stake", "stake_opcode_unstake", "stake_opcode_unstakeall", "stake_opcode_authcall"},
	}
}

func (c12) Gen(seed uint64, tier string) json.RawMessage {
	r := simrt.NewRand(seed)
	p := c12Plan{Seed: seed, RootGas: 800000000}
	if r.Chance(0.05) {
		p.SS = []string{"stake", "unstake", "unstakeall", "authcall"}[r.Intn(4)]
		p.SSPlain = r.Chance(0.25)
		b, _ := json.Marshal(p)
		return b
	}
	if r.Chance(0.03) {
		p.NodeTx = r.Range(1, 3)
		b, _ := json.Marshal(p)
		return b
	}
	if r.Chance(0.08) {
		p.FC = []string{"small", "big", "big", "toolarge", "revert", "invalid", "pattern", "pattern"}[r.Intn(8)]
		p.FCValue = uint64(r.Intn(3))
		p.FCPay = p.FCValue > 0 && r.Chance(0.5)
		p.FCGas = []uint64{60000000, 60000000, 30000000, 12000000}[r.Intn(4)]
		p.FC2 = r.Chance(0.4)
		if r.Chance(0.3) {
			// the creation is the transaction itself: its failure is rolled back by the block executor
			p.FCTop, p.FC2, p.FCValue, p.FCPay = true, false, 0, false
		}
		b, _ := json.Marshal(p)
		return b
	}
	if r.Chance(0.15) {
		p.Cross = r.Range(2, 4)
		if r.Chance(0.5) {
			for i := 0; i < p.Cross; i++ {
				k := []string{"probe", "probe", "create", "deploy"}[r.Intn(4)]
				if i == p.Cross-1 {
					k = "probe"
				}
				p.CrossKinds = append(p.CrossKinds, k)
				p.CrossArgs = append(p.CrossArgs, r.Intn(64))
			}
		}
		b, _ := json.Marshal(p)
		return b
	}
	n := r.Range(2, 8)
	if r.Chance(0.25) {
		n = r.Range(9, 14)
	}
	p.BigPay = r.Chance(0.3)
	depth := []int{0}
	p.Frames = append(p.Frames, c12Frame{Kind: "call"})
	for i := 1; i < n; i++ {
		par := r.Intn(i)
		for tries := 0; depth[par] >= 4 && tries < 8; tries++ {
			par = r.Intn(i)
		}
		depth = append(depth, depth[par]+1)
		p.Frames[par].Kids = append(p.Frames[par].Kids, i)
		p.Frames = append(p.Frames, c12Frame{Kind: []string{"call", "call", "callcode", "delegate", "static"}[r.Intn(5)]})
	}
	for i := range p.Frames {
		f := &p.Frames[i]
		ne := r.Range(0, 3)
		for j := 0; j < ne; j++ {
			f.Effects = append(f.Effects, []string{"sstore", "log", "pay", "create", "sstore", "log", "gset", "gclear", "drain", "feed"}[r.Intn(10)])
		}
		f.End = "return"
		if i > 0 && r.Chance(0.4) {
			f.End = []string{"revert", "invalid", "oog", "stackfault", "revert"}[r.Intn(5)]
		}
		if i == 0 && r.Chance(0.1) {
			f.End = []string{"revert", "invalid"}[r.Intn(2)]
		}
		if i > 0 && f.Kind == "call" && f.End == "return" && len(f.Kids) == 0 && r.Chance(0.3) {
			f.End = "selfdestruct" // the frame's contract destroys itself (beneficiary: the sink)
		}
		if f.End == "oog" || f.End == "invalid" {
			f.Gas = uint64(r.Range(3, 30)) * 100000 // bounded: these endings burn whatever they are given
		} else if i > 0 && r.Chance(0.2) {
			f.Gas = uint64(r.Range(1, 400)) * 20000 // a limited share: may starve the frame mid-way
		}
	}
	if r.Chance(0.3) {
		p.RootGas = uint64(r.Range(7, 3000)) * 100000 // root starvation at an arbitrary point
	}
	b, _ := json.Marshal(p)
	return b
}

func c12Addr(i int) common.Address {
	var a common.Address
	copy(a[:], []byte{0xc1, 0x20, 0, 0, 0, 0, 0, 0, 0, 0, 0, 0, 0, 0, 0, 0, 0, 0, byte(i >> 8), byte(i)})
	return a
}

var c12Sink = common.HexToAddress("0xc12f00000000000000000000000000000000beef")

// 10 bytes of init code returning the 1-byte runtime 0x00
var c12Init = []byte{0x60, 0x00, 0x60, 0x00, 0x53, 0x60, 0x01, 0x60, 0x00, 0xf3}

// c12Unit: what one "pay" / "feed" moves; every contract of a call tree starts with 1000 units.
func c12Unit(p *c12Plan) *big.Int {
	if p.BigPay {
		return new(big.Int).Lsh(big.NewInt(1), 64)
	}
	return big.NewInt(1)
}

func c12Code(p *c12Plan, i int) []byte {
	f := p.Frames[i]
	var c evmasm.Code
	// a call that carries value is a "feed" payment, not a frame of the tree: accept it and stop
	// (CALLVALUE ISZERO PUSH1 6 JUMPI STOP JUMPDEST)
	c.Op(0x34, 0x15, 0x60, 0x06, 0x57, 0x00, 0x5b)
	own := new(big.Int).Lsh(big.NewInt(1), uint(i))
	c.PushBytes(own.Bytes()).Push(0).Op(evmasm.MSTORE)
	for k, e := range f.Effects {
		switch e {
		case "sstore":
			c.Sstore(uint64(1000+i), uint64(i+1))
		case "gset": // a slot every frame of the same storage context shares, committed non-empty at deployment
			c.Sstore(900, uint64(i+1))
		case "gclear":
			c.Sstore(900, 0)
		case "log":
			c.Push(uint64(i*10 + k)).Push(0x20).Op(evmasm.MSTORE).Push(uint64(i)).Push(32).Push(0x20).Op(evmasm.LOG1)
		case "pay":
			c.Push(0).Push(0).Push(0).Push(0).PushBytes(c12Unit(p).Bytes()).PushBytes(c12Sink.Bytes()).Op(evmasm.GAS, evmasm.CALL, evmasm.POP)
		case "drain": // everything the executing contract holds goes to the sink: its balance becomes exactly 0
			c.Push(0).Push(0).Push(0).Push(0).Op(evmasm.SELFBALANCE).PushBytes(c12Sink.Bytes()).Op(evmasm.GAS, evmasm.CALL, evmasm.POP)
		case "feed": // 1 wei to the root contract
			c.Push(0).Push(0).Push(0).Push(0).PushBytes(c12Unit(p).Bytes()).PushBytes(c12Addr(0).Bytes()).Op(evmasm.GAS, evmasm.CALL, evmasm.POP)
		case "create":
			c.PushBytes(c12Init).Push(0x60).Op(evmasm.MSTORE).Push(10).Push(0x60+22).Push(0).Op(evmasm.CREATE, evmasm.POP)
		}
	}
	for _, kid := range f.Kids {
		kf := p.Frames[kid]
		c.Push(0).Push(0x40).Op(evmasm.MSTORE) // clear the output word
		c.Push(32).Push(0x40).Push(0).Push(0)
		op := byte(evmasm.CALL)
		switch kf.Kind {
		case "call":
			c.Push(0)
		case "callcode":
			c.Push(0)
			op = evmasm.CALLCODE
		case "delegate":
			op = evmasm.DELEGATECALL
		case "static":
			op = evmasm.STATICCALL
		}
		c.PushBytes(c12Addr(kid).Bytes())
		if kf.Gas == 0 {
			c.Op(evmasm.GAS)
		} else {
			c.Push(kf.Gas)
		}
		c.Op(op)
		// success flag on the stack: acc |= flag*(1<<kid) | out   (out is 0 unless the child returned its word;
		// a child that ends by SELFDESTRUCT succeeds without returning anything)
		c.PushBytes(new(big.Int).Lsh(big.NewInt(1), uint(kid)).Bytes()).Op(evmasm.MUL)
		c.Push(0x40).Op(evmasm.MLOAD, evmasm.OR).Push(0).Op(evmasm.MLOAD, evmasm.OR).Push(0).Op(evmasm.MSTORE)
	}
	switch f.End {
	case "return":
		c.Push(32).Push(0).Op(evmasm.RETURN)
	case "revert":
		c.Push(0).Push(0).Op(evmasm.REVERT)
	case "invalid":
		c.Op(evmasm.INVALID)
	case "selfdestruct":
		c.PushBytes(c12Sink.Bytes()).Op(evmasm.SELFDESTRUCT)
	case "oog":
		pc := len(c)
		c.Op(evmasm.JUMPDEST).Push(uint64(pc)).Op(evmasm.JUMP)
	default: // stack fault
		c.Op(evmasm.POP)
	}
	return c
}

func (c12) Exec(raw json.RawMessage, st *simrt.Stats, log *simrt.Log) *simrt.Violation {
	var p c12Plan
	if err := json.Unmarshal(raw, &p); err != nil {
		panic(runner.InfraError{Msg: "bad plan: " + err.Error()})
	}
	simmap.Seed = simrt.Mix(p.Seed, 0x6d6170) | 1
	disk := simdisk.NewDisk()
	n := node.Boot(disk, node.ForksLatestSync, false)
	ec := newExecChain(n)
	st.Evaluations++
	if p.FC != "" {
		return c12FailedCreate(&p, ec, st, log)
	}
	if p.SS != "" {
		return c12StaticStake(&p, ec, st, log)
	}
	if p.NodeTx > 0 {
		return c12NodeTx(&p, ec, st, log)
	}
	if p.Cross > 0 {
		return c12Cross(&p, ec, st, log)
	}
	viol := func(ev int, clause, where, f string, a ...interface{}) *simrt.Violation {
		return simrt.Violationf("C12", clause, where, ev, f, a...)
	}
	nf := len(p.Frames)
	// deploy: write the contracts into a state on top of the head and commit it
	common.SetBlockHeight(ec.height)
	s0 := ec.state()
	for i := range p.Frames {
		a := c12Addr(i)
		s0.SetCode(a, c12Code(&p, i))
		s0.SetNonce(a, 1)
		s0.AddBalance(a, new(big.Int).Mul(big.NewInt(1000), c12Unit(&p)))
		s0.SetState(a, common.BigToHash(big.NewInt(900)), common.BigToHash(big.NewInt(0x55)))
	}
	root, err := s0.Commit(true)
	if err == nil {
		err = middleware.AccountDBManagerInstance.GetTrieDB().Commit(root, false)
	}
	if err != nil {
		panic(runner.InfraError{Msg: "c12 deploy: " + err.Error()})
	}
	ec.root = root

	// context (whose storage/balance/nonce a frame touches) and static-subtree membership
	parent := make([]int, nf)
	for i := range parent {
		parent[i] = -1
	}
	for i, f := range p.Frames {
		for _, k := range f.Kids {
			parent[k] = i
		}
	}
	ctx := make([]int, nf)
	static := make([]bool, nf)
	var order []int
	var walk func(i int)
	walk = func(i int) {
		order = append(order, i)
		for _, k := range p.Frames[i].Kids {
			kind := p.Frames[k].Kind
			if kind == "callcode" || kind == "delegate" {
				ctx[k] = ctx[i]
			} else {
				ctx[k] = k
			}
			static[k] = static[i] || kind == "static"
			walk(k)
		}
	}
	walk(0)
	failingInner := false
	shape := ""
	for i, f := range p.Frames {
		shape += fmt.Sprintf("%s/%s/%v/%d;", f.Kind, f.End, f.Effects, f.Gas)
		if i > 0 && f.End != "return" && f.End != "selfdestruct" {
			failingInner = true
		}
		switch f.End {
		case "revert":
			st.Fault("frame_revert")
		case "invalid":
			st.Fault("frame_invalid")
		case "oog":
			st.Fault("frame_oog")
		case "stackfault":
			st.Fault("frame_stackfault")
		case "selfdestruct":
			st.Fault("frame_selfdestruct")
		}
		if f.Kind == "static" {
			st.Fault("static_context")
		}
		if f.Gas > 0 && f.End == "return" {
			st.Fault("gas_starvation_frame")
		}
	}
	starved := p.RootGas < 800000000
	if starved {
		st.Fault("gas_starvation_root")
	}

	pre := ec.state()
	preSink := pre.GetBalance(c12Sink)
	tx := node.TxSpec{K: "call", From: 0, To: c12Addr(0).GetHexString(), Gas: p.RootGas, Salt: fmt.Sprintf("c12-%d", p.Seed)}.Build()
	receipts, _, _, _ := ec.execBlock(ec.height+1, []*types.Transaction{tx}, true)
	if len(receipts) != 1 {
		return viol(0, "no-receipt", "root", "the call transaction produced %d receipts", len(receipts))
	}
	rc := receipts[0]
	post := ec.state()
	ok := rc.Status == types.ReceiptStatusSuccessful
	// persisted bitmap from the root's return data
	persisted := make([]bool, nf)
	if ok {
		var res struct {
			Result string `json:"result"`
		}
		json.Unmarshal([]byte(rc.Msg), &res)
		word := common.FromHex(res.Result)
		bm := new(big.Int).SetBytes(word)
		for i := 0; i < nf; i++ {
			persisted[i] = bm.Bit(i) == 1
		}
		if !persisted[0] {
			return viol(0, "bitmap-malformed", "root", "successful root call returned %q without its own bit", res.Result)
		}
	}
	log.Add("root ok=%v gas=%d persisted=%v msg=%.60s", ok, p.RootGas, persisted, rc.Msg)
	// the reported outcome must be possible at all
	for i, f := range p.Frames {
		if !persisted[i] {
			continue
		}
		if f.End != "return" && f.End != "selfdestruct" {
			return viol(i, "bitmap-malformed", "ending", "frame %d ends with %s but reports success", i, f.End)
		}
		if parent[i] >= 0 && !persisted[parent[i]] {
			return viol(i, "bitmap-malformed", "ancestor", "frame %d reports success below a failed frame %d", i, parent[i])
		}
		if static[i] && (len(f.Effects) > 0 || f.End == "selfdestruct") {
			what := "selfdestruct"
			if len(f.Effects) > 0 {
				what = f.Effects[0]
			}
			return viol(i, "write-in-static-context-succeeded", what, "frame %d runs inside a STATICCALL subtree, performs %v (ending %s), and reported success", i, f.Effects, f.End)
		}
	}
	// expected effects: exactly those of persisted frames outside static subtrees
	wantLogs := []string{}
	pays := map[int]int64{}
	creates := map[int]int{}
	attempts := map[int]int{}
	sinkGain := int64(0)
	// balances: the value-moving effects of the persisted frames, replayed in execution order (a frame's
	// effects run before its children are called; a transfer the sender cannot afford simply fails)
	bal := make([]int64, nf)
	for a := range bal {
		bal[a] = 1000
	}
	destroyed := map[int]bool{}
	for _, i := range order {
		f := p.Frames[i]
		if !persisted[i] || static[i] {
			continue
		}
		for k, e := range f.Effects {
			switch e {
			case "log":
				wantLogs = append(wantLogs, fmt.Sprintf("%x|%d|%d", c12Addr(ctx[i]).Bytes(), i, i*10+k))
			case "pay":
				if bal[ctx[i]] >= 1 {
					bal[ctx[i]]--
					sinkGain++
				}
			case "feed":
				if bal[ctx[i]] >= 1 {
					bal[ctx[i]]--
					bal[0]++
				}
			case "drain":
				sinkGain += bal[ctx[i]]
				bal[ctx[i]] = 0
			case "create":
				attempts[ctx[i]]++
				creates[ctx[i]]++
			}
		}
		// a persisted self-destructing frame (only call-kind leaf frames end that way: ctx = the frame): whatever
		// the contract still holds goes to the sink
		if f.End == "selfdestruct" {
			destroyed[i] = true
			sinkGain += bal[i]
			bal[i] = 0
		}
	}
	for a := range bal {
		pays[a] = 1000 - bal[a]
	}
	// storage
	for i, f := range p.Frames {
		has := false
		for _, e := range f.Effects {
			if e == "sstore" {
				has = true
			}
		}
		for a := 0; a < nf; a++ {
			got := post.GetState(c12Addr(a), common.BigToHash(big.NewInt(int64(1000+i))))
			want := common.Hash{}
			if has && persisted[i] && !static[i] && ctx[i] == a && !destroyed[a] {
				want = common.BigToHash(big.NewInt(int64(i + 1)))
			}
			if got != want {
				clause, where := "failed-frame-left-storage", p.Frames[i].End
				if persisted[i] && !static[i] {
					clause, where = "persisted-frame-storage-missing", f.Kind
				} else if static[i] {
					clause, where = "static-subtree-left-storage", f.Kind
				}
				return viol(i, clause, where, "slot of frame %d in contract %d holds %x, expected %x (frame persisted=%v, static=%v, ctx=%d)", i, a, got.Bytes()[28:], want.Bytes()[28:], persisted[i], static[i], ctx[i])
			}
		}
	}
	// the shared slot of every storage context: last persisted write in execution order, else the committed value
	for a := 0; a < nf; a++ {
		want := common.BigToHash(big.NewInt(0x55))
		lastKind := "untouched"
		for _, i := range order {
			if !persisted[i] || static[i] || ctx[i] != a {
				continue
			}
			for _, e := range p.Frames[i].Effects {
				switch e {
				case "gset":
					want, lastKind = common.BigToHash(big.NewInt(int64(i+1))), "set"
				case "gclear":
					want, lastKind = common.Hash{}, "cleared"
				}
			}
		}
		if destroyed[a] {
			want, lastKind = common.Hash{}, "destroyed"
		}
		if got := post.GetState(c12Addr(a), common.BigToHash(big.NewInt(900))); got != want {
			return viol(a, "shared-slot-wrong", "expected-"+lastKind, "shared slot of contract %d holds %x after the block, the persisted frames leave %x (%s)", a, got.Bytes()[28:], want.Bytes()[28:], lastKind)
		}
	}
	// logs, in order
	var gotLogs []string
	for _, l := range rc.Logs {
		t := int64(-1)
		if len(l.Topics) > 0 {
			t = new(big.Int).SetBytes(l.Topics[0].Bytes()).Int64()
		}
		gotLogs = append(gotLogs, fmt.Sprintf("%x|%d|%d", l.Address.Bytes(), t, new(big.Int).SetBytes(l.Data).Int64()))
	}
	if strings.Join(gotLogs, ",") != strings.Join(wantLogs, ",") {
		where := "order-or-content"
		if len(gotLogs) > len(wantLogs) {
			where = "log-of-failed-or-static-frame-kept"
		} else if len(gotLogs) < len(wantLogs) {
			where = "log-of-persisted-frame-missing"
		}
		return viol(0, "receipt-logs-wrong", where, "receipt logs %v, expected %v", gotLogs, wantLogs)
	}
	// balances
	if d := new(big.Int).Sub(post.GetBalance(c12Sink), preSink); d.Cmp(new(big.Int).Mul(big.NewInt(sinkGain), c12Unit(&p))) != 0 {
		return viol(0, "value-transfer-of-failed-frame-kept", "sink", "sink gained %s wei, persisted frames paid %d units of %s wei", d.String(), sinkGain, c12Unit(&p).String())
	}
	for a := 0; a < nf; a++ {
		if destroyed[a] {
			if len(post.GetCode(c12Addr(a))) != 0 || post.GetBalance(c12Addr(a)).Sign() != 0 {
				return viol(a, "selfdestruct-of-persisted-frame-missing", "contract", "contract %d self-destructed in a persisted frame but still has code/balance", a)
			}
			continue
		}
		if len(post.GetCode(c12Addr(a))) == 0 {
			return viol(a, "account-removed-by-failed-frame", "contract", "contract %d lost its code although no persisted frame destroyed it (a reverted SELFDESTRUCT left a trace)", a)
		}
		want := new(big.Int).Sub(pre.GetBalance(c12Addr(a)), new(big.Int).Mul(big.NewInt(pays[a]), c12Unit(&p)))
		if post.GetBalance(c12Addr(a)).Cmp(want) != 0 {
			return viol(a, "value-transfer-of-failed-frame-kept", "contract", "contract %d balance %s, expected %s", a, post.GetBalance(c12Addr(a)).String(), want.String())
		}
		// nonces and created accounts
		nonce := post.GetNonce(c12Addr(a))
		if starved || hasGasShares(&p) {
			if nonce < 1 || nonce > uint64(1+attempts[a]) {
				return viol(a, "nonce-of-failed-frame-kept", "contract", "contract %d nonce %d outside [1,%d]", a, nonce, 1+attempts[a])
			}
		} else if nonce != uint64(1+creates[a]) {
			return viol(a, "nonce-of-failed-frame-kept", "contract", "contract %d nonce %d, expected %d (1 + creations of persisted frames)", a, nonce, 1+creates[a])
		}
		for k := uint64(1); k <= uint64(attempts[a])+2; k++ {
			ca := createAddress(c12Addr(a), k)
			code := post.GetCode(ca)
			exists := post.Exist(ca) && (len(code) > 0 || post.GetNonce(ca) > 0)
			if k >= nonce && exists {
				return viol(a, "account-created-by-failed-frame-exists", "contract", "account %s (creation nonce %d of contract %d) exists although the contract's nonce is %d", ca.GetHexString(), k, a, nonce)
			}
			if exists && !bytes.Equal(code, []byte{0}) {
				return viol(a, "created-account-wrong", "code", "created account %s has code %x", ca.GetHexString(), code)
			}
			if !starved && !hasGasShares(&p) && k < nonce && !exists {
				return viol(a, "created-account-wrong", "missing", "creation %d of contract %d persisted but the account does not exist", k, a)
			}
		}
	}
	if !ok {
		// failed root: nothing but fee and nonce of the sender
		if len(rc.Logs) != 0 {
			return viol(0, "receipt-logs-wrong", "failed-root", "failed transaction carries %d logs", len(rc.Logs))
		}
	}
	st.State(simrt.HashString(shape))
	if failingInner {
		st.Nontrivial(simrt.HashString(shape))
	}
	return nil
}

func hasGasShares(p *c12Plan) bool {
	for _, f := range p.Frames {
		if f.Gas > 0 && f.End == "return" {
			return true
		}
	}
	return false
}

func createAddress(a common.Address, nonce uint64) common.Address {
	var nb []byte
	if nonce > 0 {
		nb = new(big.Int).SetUint64(nonce).Bytes()
	}
	enc := model.RlpList(model.RlpString(a.Bytes()), model.RlpString(nb))
	return common.BytesToAddress(model.Keccak(enc)[12:])
}

// ---- cross-transaction part ----

// c12CrossAddr: transactions that warm ADDRESSES only (no storage slot): account-access opcodes, an
// inner CREATE, a deployment transaction. Every probe transaction that is not first in the block must
// cost exactly what it costs as the only transaction of a block on the same parent state: the probes
// only read and pop, so their gas depends on nothing but the access list they start with.
func c12CrossAddr(p *c12Plan, ec *execChain, st *simrt.Stats, log *simrt.Log) *simrt.Violation {
	viol := func(ev int, clause, where, f string, a ...interface{}) *simrt.Violation {
		return simrt.Violationf("C12", clause, where, ev, f, a...)
	}
	var probe evmasm.Code
	probe.Push(0).Op(evmasm.CALLDATALOAD, evmasm.BALANCE, evmasm.POP)
	probe.Push(32).Op(evmasm.CALLDATALOAD, evmasm.EXTCODESIZE, evmasm.POP)
	probe.Push(0).Op(evmasm.CALLDATALOAD, 0x3f /* EXTCODEHASH */, evmasm.POP)
	probe.Push(32).Op(evmasm.CALLDATALOAD, evmasm.BALANCE, evmasm.POP)
	probe.Push(64).Op(evmasm.CALLDATALOAD).Push(0).Op(evmasm.MSTORE)
	probe.Push(64).Op(evmasm.CALLDATALOAD).Push(32).Push(0).Op(evmasm.LOG1, evmasm.STOP)
	var creator evmasm.Code
	// CREATE(value 0, init code returning the 1-byte runtime 0x00) ; LOG1(topic = calldata word 2).
	// (A contract with EMPTY runtime code is avoided on purpose: SetCode hashes it with Keccak-256 while
	// the account layer's emptyCodeHash is SHA3-256, so a later EXTCODESIZE of it records a database error
	// that makes the block's Commit fail - see DESIGN.md 13.3, observations.)
	creator.PushBytes(c12Init).Push(0x60).Op(evmasm.MSTORE).Push(10).Push(0x60+22).Push(0).Op(evmasm.CREATE, evmasm.POP)
	creator.Push(64).Op(evmasm.CALLDATALOAD).Push(32).Push(0).Op(evmasm.LOG1, evmasm.STOP)
	paddr, caddr := c12Addr(510), c12Addr(511)
	common.SetBlockHeight(ec.height)
	s0 := ec.state()
	s0.SetCode(paddr, probe)
	s0.SetNonce(paddr, 1)
	s0.SetCode(caddr, creator)
	s0.SetNonce(caddr, 1)
	root, err := s0.Commit(true)
	if err == nil {
		err = middleware.AccountDBManagerInstance.GetTrieDB().Commit(root, false)
	}
	if err != nil {
		panic(runner.InfraError{Msg: "c12 deploy: " + err.Error()})
	}
	ec.root = root
	// addresses a probe may look at: plain accounts, the creator, what the creator will create next,
	// what a deployment by each sender will create, an address nobody uses
	pre := ec.state()
	var cands []common.Address
	for i := 0; i < 4; i++ {
		a := common.HexToAddress(node.Account(i))
		cands = append(cands, a, createAddress(a, pre.GetNonce(a)))
	}
	cands = append(cands, caddr, createAddress(caddr, 1), createAddress(caddr, 2), paddr, c12Addr(999))
	word := func(a common.Address) []byte { return common.BytesToHash(a.Bytes()).Bytes() }
	var txs []*types.Transaction
	for i, k := range p.CrossKinds {
		arg := 0
		if i < len(p.CrossArgs) {
			arg = p.CrossArgs[i]
		}
		tag := common.BigToHash(big.NewInt(int64(i + 1))).Bytes()
		sender := node.Account(i % 4)
		var cd types.ContractData
		target := ""
		switch k {
		case "probe":
			in := append(append(word(cands[arg%len(cands)]), word(cands[(arg/len(cands)+arg)%len(cands)])...), tag...)
			cd = types.ContractData{GasLimit: "60000000", TransferValue: "0", AbiData: "0x" + hex.EncodeToString(in)}
			target = paddr.GetHexString()
		case "create":
			in := append(make([]byte, 64), tag...)
			cd = types.ContractData{GasLimit: "60000000", TransferValue: "0", AbiData: "0x" + hex.EncodeToString(in)}
			target = caddr.GetHexString()
		default: // deployment transaction
			cd = types.ContractData{GasLimit: "60000000", TransferValue: "0", AbiData: common.ToHex(evmasm.Deployer([]byte{evmasm.STOP, evmasm.STOP}))}
		}
		data, _ := json.Marshal(cd)
		txs = append(txs, node.RawTx(types.TransactionTypeContract, sender, target, 0, string(data), "", fmt.Sprintf("c12a-%d-%d", p.Seed, i)))
		st.Fault("same_block_second_tx")
	}
	// reference: each probe alone in a block on the same parent state (not committed)
	ref := map[common.Hash]uint64{}
	for i, t := range txs {
		if p.CrossKinds[i] != "probe" {
			continue
		}
		rcs, _, _, _ := ec.execBlock(ec.height+1, []*types.Transaction{t}, false)
		if len(rcs) != 1 || rcs[0].Status != types.ReceiptStatusSuccessful {
			panic(runner.InfraError{Msg: "c12 cross: reference probe did not run"})
		}
		ref[t.Hash] = rcs[0].GasUsed
	}
	receipts, executed, _, _ := ec.execBlock(ec.height+1, txs, true)
	if len(receipts) != len(txs) {
		return viol(0, "no-receipt", "cross", "%d receipts for %d transactions", len(receipts), len(txs))
	}
	idxOf := map[common.Hash]int{}
	for i, t := range txs {
		idxOf[t.Hash] = i
	}
	seq := ""
	for k, rc := range receipts {
		i := idxOf[executed[k].Hash]
		seq += p.CrossKinds[i][:1]
		if rc.Status != types.ReceiptStatusSuccessful {
			return viol(k, "cross-tx-failed", "cross", "transaction %d (%s) failed: %s", i, p.CrossKinds[i], rc.Msg)
		}
		if p.CrossKinds[i] != "deploy" {
			if len(rc.Logs) != 1 || len(rc.Logs[0].Topics) != 1 || rc.Logs[0].Topics[0] != common.BigToHash(big.NewInt(int64(i+1))) {
				return viol(k, "receipt-logs-wrong", "cross-tx", "receipt of transaction %d carries %d logs (expected exactly its own)", i, len(rc.Logs))
			}
		} else if len(rc.Logs) != 0 {
			return viol(k, "receipt-logs-wrong", "cross-tx", "receipt of deployment transaction %d carries %d logs (it emits none)", i, len(rc.Logs))
		}
		log.Add("cross(addr) tx %d kind=%s pos %d gas=%d ref=%d", i, p.CrossKinds[i], k, rc.GasUsed, ref[executed[k].Hash])
		if want, ok := ref[executed[k].Hash]; ok && rc.GasUsed != want {
			return viol(k, "access-list-leaked", "address-warm-from-earlier-tx", "probe transaction at position %d used %d gas, alone in a block on the same state it uses %d: it did not start with an empty access list", k, rc.GasUsed, want)
		}
	}
	// what the executor does before the next transaction, on the very state object the block ran on:
	// afterwards no address and no slot may be in the access list
	if stl := ec.last; stl != nil {
		stl.Prepare(common.BytesToHash([]byte{0xaa}), common.BytesToHash([]byte{0xbb}), len(txs))
		for _, a := range append(cands, paddr, caddr) {
			if stl.AddressInAccessList(a) {
				return viol(len(txs), "access-list-leaked", "address-present-after-prepare", "after the block's last transaction (%s) and Prepare for a next one, address %s is still in the access list", p.CrossKinds[idxOf[executed[len(executed)-1].Hash]], a.GetHexString()[:12])
			}
		}
	}
	st.State(simrt.HashString("addr" + seq))
	st.Nontrivial(simrt.Mix(p.Seed, simrt.HashString(seq)))
	return nil
}

func c12Cross(p *c12Plan, ec *execChain, st *simrt.Stats, log *simrt.Log) *simrt.Violation {
	if len(p.CrossKinds) > 0 {
		return c12CrossAddr(p, ec, st, log)
	}
	viol := func(ev int, clause, where, f string, a ...interface{}) *simrt.Violation {
		return simrt.Violationf("C12", clause, where, ev, f, a...)
	}
	// contract T: slot[100 + calldata word] = TLOAD(1) + 1 ; TSTORE(1, 0x77) ; SLOAD(7) ; LOG1(topic = calldata word)
	var c evmasm.Code
	c.Push(1).Op(evmasm.TLOAD).Push(1).Op(evmasm.ADD)          // v = tload(1)+1
	c.Push(0).Op(evmasm.CALLDATALOAD).Push(100).Op(evmasm.ADD) // slot
	c.Op(evmasm.SSTORE)
	c.Push(0x77).Push(1).Op(evmasm.TSTORE)
	c.Push(7).Op(evmasm.SLOAD, evmasm.POP)
	c.Push(0).Op(evmasm.CALLDATALOAD).Push(0).Op(evmasm.MSTORE)
	c.Push(0).Op(evmasm.CALLDATALOAD).Push(32).Push(0).Op(evmasm.LOG1, evmasm.STOP)
	taddr := c12Addr(500)
	common.SetBlockHeight(ec.height)
	s0 := ec.state()
	s0.SetCode(taddr, c)
	s0.SetNonce(taddr, 1)
	s0.SetState(taddr, common.BigToHash(big.NewInt(7)), common.BigToHash(big.NewInt(9)))
	root, err := s0.Commit(true)
	if err == nil {
		err = middleware.AccountDBManagerInstance.GetTrieDB().Commit(root, false)
	}
	if err != nil {
		panic(runner.InfraError{Msg: "c12 deploy: " + err.Error()})
	}
	ec.root = root
	var txs []*types.Transaction
	for i := 0; i < p.Cross; i++ {
		cd := types.ContractData{GasLimit: "60000000", TransferValue: "0", AbiData: "0x" + hex.EncodeToString(common.BigToHash(big.NewInt(int64(i+1))).Bytes())}
		data, _ := json.Marshal(cd)
		// different senders so that nonce bookkeeping is identical for every transaction
		txs = append(txs, node.RawTx(types.TransactionTypeContract, node.Account(i%4), taddr.GetHexString(), 0, string(data), "", fmt.Sprintf("c12x-%d-%d", p.Seed, i)))
		st.Fault("same_block_second_tx")
	}
	receipts, executed, _, _ := ec.execBlock(ec.height+1, txs, true)
	post := ec.state()
	if len(receipts) != len(txs) {
		return viol(0, "no-receipt", "cross", "%d receipts for %d transactions", len(receipts), len(txs))
	}
	idxOf := map[common.Hash]int{}
	for i, t := range txs {
		idxOf[t.Hash] = i
	}
	var gas0 uint64
	for k, rc := range receipts {
		i := idxOf[executed[k].Hash]
		if rc.Status != types.ReceiptStatusSuccessful {
			return viol(k, "cross-tx-failed", "cross", "transaction %d failed: %s", i, rc.Msg)
		}
		got := post.GetState(taddr, common.BigToHash(big.NewInt(int64(100+i+1))))
		if len(rc.Logs) != 1 || len(rc.Logs[0].Topics) != 1 || rc.Logs[0].Topics[0] != common.BigToHash(big.NewInt(int64(i+1))) {
			return viol(k, "receipt-logs-wrong", "cross-tx", "receipt of transaction %d carries %d logs (expected exactly its own)", i, len(rc.Logs))
		}
		if k == 0 {
			gas0 = rc.GasUsed
		} else if rc.GasUsed != gas0 {
			return viol(k, "access-list-leaked", "gas-differs", "transaction at position %d used %d gas, the first one %d: identical work must cost the same when each starts with an empty access list", k, rc.GasUsed, gas0)
		}
		log.Add("cross tx %d pos %d gas=%d slot=%x", i, k, rc.GasUsed, got.Bytes()[31:])
	}
	if stl := ec.last; stl != nil {
		stl.Prepare(common.BytesToHash([]byte{0xaa}), common.BytesToHash([]byte{0xbb}), len(txs))
		if aok, sok := stl.SlotInAccessList(taddr, common.BigToHash(big.NewInt(7))); aok || sok {
			return viol(len(txs), "access-list-leaked", "slot-present-after-prepare", "after the block's last transaction and Prepare for a next one, the contract (address %v, slot 7 %v) is still in the access list", aok, sok)
		}
	}
	// transient storage last (so that the log and access-list clauses are judged in every plan)
	for k := range receipts {
		i := idxOf[executed[k].Hash]
		got := post.GetState(taddr, common.BigToHash(big.NewInt(int64(100+i+1))))
		if got != common.BigToHash(big.NewInt(1)) {
			return viol(k, "transient-storage-leaked", "tload-in-later-tx", "transaction %d (position %d in the block) read transient slot 1 = %x at its start; a transaction must start with empty transient storage", i, k, new(big.Int).Sub(new(big.Int).SetBytes(got.Bytes()), big.NewInt(1)).Bytes())
		}
	}
	st.State(uint64(p.Cross))
	st.Nontrivial(simrt.Mix(p.Seed, uint64(p.Cross)))
	return nil
}

func (c12) Shrink(raw json.RawMessage) []json.RawMessage {
	var p c12Plan
	json.Unmarshal(raw, &p)
	var out []json.RawMessage
	emit := func(q c12Plan) {
		b, _ := json.Marshal(q)
		out = append(out, b)
	}
	if p.Cross > 2 {
		q := p
		q.Cross = 2
		emit(q)
	}
	// drop a leaf frame
	for i := len(p.Frames) - 1; i > 0; i-- {
		if len(p.Frames[i].Kids) != 0 {
			continue
		}
		q := p
		q.Frames = nil
		remap := map[int]int{}
		for j, f := range p.Frames {
			if j == i {
				continue
			}
			remap[j] = len(q.Frames)
			q.Frames = append(q.Frames, f)
		}
		for j := range q.Frames {
			var kids []int
			for _, k := range q.Frames[j].Kids {
				if k != i {
					kids = append(kids, remap[k])
				}
			}
			q.Frames[j].Kids = kids
		}
		emit(q)
	}
	for i, f := range p.Frames {
		for k := range f.Effects {
			q := p
			q.Frames = append([]c12Frame{}, p.Frames...)
			q.Frames[i].Effects = append(append([]string{}, f.Effects[:k]...), f.Effects[k+1:]...)
			emit(q)
		}
		if f.Gas > 0 && f.End == "return" {
			q := p
			q.Frames = append([]c12Frame{}, p.Frames...)
			q.Frames[i].Gas = 0
			emit(q)
		}
	}
	if p.RootGas < 800000000 && p.Cross == 0 {
		q := p
		q.RootGas = 800000000
		emit(q)
	}
	return out
}

// ---- failed contract creation ----

var c12CodePattern = []byte{0x60, 0x01, 0x60, 0x02, 0x01, 0x50, 0x00, 0xC0, 0xDE, 0x0B, 0x0D, 0x1E, 0x5A, 0xFE, 0x11, 0x22, 0x33, 0x44, 0x55, 0x66, 0x77, 0x88, 0x99, 0xAA, 0xBB, 0xCC, 0xDD, 0x01, 0x02, 0x03, 0x04, 0x05}

// c12FailedCreate: a contract F runs an inner CREATE whose init code has effects (SSTORE, LOG1, optionally a
// payment out of its endowment) and then ends in a seeded way; F records what CREATE pushed. If CREATE
// reported failure (0), nothing of the creation frame may remain: no account at the would-be address
// (nonce, code, storage, balance), no log of the init code in the receipt, endowment back with F.
func c12FailedCreate(p *c12Plan, ec *execChain, st *simrt.Stats, log *simrt.Log) *simrt.Violation {
	viol := func(ev int, clause, where, f string, a ...interface{}) *simrt.Violation {
		return simrt.Violationf("C12", clause, where, ev, f, a...)
	}
	var init evmasm.Code
	init.Sstore(1, 0x55).Log1(0xC0DE, 7)
	if p.FCPay {
		init.Push(0).Push(0).Push(0).Push(0).Push(1).PushBytes(c12Sink.Bytes()).Op(evmasm.GAS, evmasm.CALL, evmasm.POP)
	}
	where := map[string]string{"small": "successful-creation", "pattern": "successful-creation-large-memory", "big": "code-store-out-of-gas", "toolarge": "code-too-large", "revert": "init-reverted", "invalid": "init-invalid-opcode"}[p.FC]
	switch p.FC {
	case "small":
		init.Push(1).Push(0).Op(evmasm.RETURN)
	case "pattern":
		// 32 bytes of recognisable code returned from a frame whose memory grew beyond 4 KiB
		init.PushBytes(c12CodePattern).Push(0).Op(evmasm.MSTORE).Push(0xAA).Push(0x1400).Op(0x53).Push(32).Push(0).Op(evmasm.RETURN)
	case "big": // 200000 bytes of runtime code (below the size limit): the deposit costs 40M gas or more
		init.Push(200000).Push(0).Op(evmasm.RETURN)
	case "toolarge":
		init.Push(250000).Push(0).Op(evmasm.RETURN)
	case "revert":
		init.Push(0).Push(0).Op(evmasm.REVERT)
	default:
		init.Op(evmasm.INVALID)
	}
	if p.FCTop {
		return c12FailedCreateTx(p, init, where, ec, st, log)
	}
	var f evmasm.Code
	for off := 0; off < len(init); off += 32 {
		chunk := make([]byte, 32)
		copy(chunk, init[off:])
		f.PushBytes(chunk).Push(uint64(0x80 + off)).Op(evmasm.MSTORE)
	}
	if p.FC2 {
		f.Push(0x5a17).Push(uint64(len(init))).Push(0x80).Push(p.FCValue).Op(evmasm.CREATE2)
	} else {
		f.Push(uint64(len(init))).Push(0x80).Push(p.FCValue).Op(evmasm.CREATE)
	}
	f.Push(1).Op(evmasm.SSTORE)
	haddr := c12Addr(601)
	if p.FC == "pattern" {
		// a later frame of the same transaction that uses as much memory (it ends normally or reverts)
		f.Push(0).Push(0).Push(0).Push(0).Push(0).PushBytes(haddr.Bytes()).Op(evmasm.GAS, evmasm.CALL, evmasm.POP)
	}
	f.Log1(0xF00D, 1).Op(evmasm.STOP)
	faddr := c12Addr(600)
	common.SetBlockHeight(ec.height)
	s0 := ec.state()
	s0.SetCode(faddr, f)
	s0.SetNonce(faddr, 1)
	s0.AddBalance(faddr, big.NewInt(1000))
	if p.FC == "pattern" {
		var hc evmasm.Code
		hc.PushBytes(bytes.Repeat([]byte{0xEE}, 32)).Push(0).Op(evmasm.MSTORE).Push(0xEE).Push(0x1400).Op(0x53)
		if p.FCPay || p.FCValue == 1 {
			hc.Push(0).Push(0).Op(evmasm.REVERT)
		} else {
			hc.Op(evmasm.STOP)
		}
		s0.SetCode(haddr, hc)
		s0.SetNonce(haddr, 1)
	}
	root, err := s0.Commit(true)
	if err == nil {
		err = middleware.AccountDBManagerInstance.GetTrieDB().Commit(root, false)
	}
	if err != nil {
		panic(runner.InfraError{Msg: "c12 deploy: " + err.Error()})
	}
	ec.root = root
	pre := ec.state()
	created := createAddress(faddr, pre.GetNonce(faddr))
	if p.FC2 {
		buf := append([]byte{0xff}, faddr.Bytes()...)
		buf = append(buf, common.BigToHash(big.NewInt(0x5a17)).Bytes()...)
		buf = append(buf, model.Keccak(init)...)
		created = common.BytesToAddress(model.Keccak(buf)[12:])
	}
	sinkBefore := pre.GetBalance(c12Sink)
	st.Fault("inner_create_" + p.FC)
	if p.FC2 {
		st.Probe("inner_create2")
	}
	tx := node.TxSpec{K: "call", From: 0, To: faddr.GetHexString(), Gas: p.FCGas, Salt: fmt.Sprintf("c12fc-%d", p.Seed)}.Build()
	receipts, _, _, _ := ec.execBlock(ec.height+1, []*types.Transaction{tx}, true)
	if len(receipts) != 1 {
		return viol(0, "no-receipt", "failed-creation", "%d receipts for 1 transaction", len(receipts))
	}
	rc := receipts[0]
	post := ec.state()
	res := post.GetState(faddr, common.BigToHash(big.NewInt(1)))
	initLog, ownLog := false, false
	for _, l := range rc.Logs {
		if len(l.Topics) == 1 && l.Topics[0] == common.BigToHash(big.NewInt(0xC0DE)) {
			initLog = true
		}
		if len(l.Topics) == 1 && l.Topics[0] == common.BigToHash(big.NewInt(0xF00D)) {
			ownLog = true
		}
	}
	exists := post.GetNonce(created) != 0 || len(post.GetCode(created)) > 0 || post.GetState(created, common.BigToHash(big.NewInt(1))) != (common.Hash{}) || post.GetBalance(created).Sign() != 0
	log.Add("fc=%s value=%d pay=%v gas=%d status=%d result=%x exists=%v initlog=%v msg=%.60s", p.FC, p.FCValue, p.FCPay, p.FCGas, rc.Status, res.Bytes()[12:], exists, initLog, rc.Msg)
	st.State(simrt.HashString(fmt.Sprintf("fc|%s|%d|%v|%d|%v", p.FC, p.FCValue, p.FCPay, p.FCGas, rc.Status)))
	st.Nontrivial(simrt.HashString(fmt.Sprintf("fc|%s|%d|%v|%d", p.FC, p.FCValue, p.FCPay, p.FCGas)))
	trace := func() string {
		return fmt.Sprintf("account %s after the block: nonce %d, %d bytes of code, slot 1 = %x, balance %s; init-code log in the receipt: %v; creator balance %s (1000 before), sink +%s",
			created.GetHexString()[:12], post.GetNonce(created), len(post.GetCode(created)), post.GetState(created, common.BigToHash(big.NewInt(1))).Bytes()[31:], post.GetBalance(created), initLog,
			post.GetBalance(faddr), new(big.Int).Sub(post.GetBalance(c12Sink), sinkBefore))
	}
	if rc.Status != types.ReceiptStatusSuccessful {
		// the whole transaction failed (gas): nothing at all may remain
		if exists || len(rc.Logs) != 0 || post.GetBalance(faddr).Cmp(big.NewInt(1000)) != 0 {
			return viol(0, "failed-transaction-left-trace", where, "the transaction failed (%s) but left state behind: %s", rc.Msg, trace())
		}
		return nil
	}
	if !ownLog {
		return viol(0, "receipt-logs-wrong", "failed-creation", "the creator's own log is missing from the receipt of a successful transaction")
	}
	switch {
	case res == (common.Hash{}):
		st.Probe("inner_create_reported_failure")
		if exists || initLog || post.GetBalance(faddr).Cmp(big.NewInt(1000)) != 0 || post.GetBalance(c12Sink).Cmp(sinkBefore) != 0 {
			return viol(0, "failed-creation-left-trace", where, "CREATE reported failure (pushed 0) but the creation frame left a trace: %s", trace())
		}
	case common.BytesToAddress(res.Bytes()) == created:
		st.Probe("inner_create_reported_success")
		if post.GetNonce(created) != 1 || !initLog || post.GetState(created, common.BigToHash(big.NewInt(1))) != common.BigToHash(big.NewInt(0x55)) {
			return viol(0, "successful-creation-incomplete", where, "CREATE reported success but the created account lacks the init code's effects: %s", trace())
		}
		if p.FC != "small" && p.FC != "big" && p.FC != "pattern" {
			return viol(0, "creation-succeeded-unexpectedly", where, "CREATE reported success although the init code ended with %s", p.FC)
		}
		if p.FC == "pattern" && !bytes.Equal(post.GetCode(created), c12CodePattern) {
			return viol(0, "successful-creation-incomplete", where, "CREATE reported success but the account's code is %x, the init code returned %x", post.GetCode(created), c12CodePattern)
		}
		if want := map[string]int{"small": 1, "big": 200000, "pattern": 32}[p.FC]; len(post.GetCode(created)) != want {
			return viol(0, "successful-creation-incomplete", where, "CREATE reported success but the account holds %d bytes of code, the init code returned %d", len(post.GetCode(created)), want)
		}
	default:
		return viol(0, "create-result-wrong", where, "CREATE pushed %x, neither 0 nor the address derived from creator and nonce (%s)", res.Bytes()[12:], created.GetHexString())
	}
	return nil
}

// c12FailedCreateTx: the same init code as a contract-creation transaction. A failed transaction's receipt
// carries no log and nothing of the creation frame remains; a successful one has all of its effects.
func c12FailedCreateTx(p *c12Plan, init evmasm.Code, where string, ec *execChain, st *simrt.Stats, log *simrt.Log) *simrt.Violation {
	viol := func(ev int, clause, where, f string, a ...interface{}) *simrt.Violation {
		return simrt.Violationf("C12", clause, where, ev, f, a...)
	}
	common.SetBlockHeight(ec.height)
	pre := ec.state()
	sender := common.HexToAddress(node.Account(0))
	n0 := pre.GetNonce(sender)
	sinkBefore := pre.GetBalance(c12Sink)
	st.Fault("creation_tx_" + p.FC)
	tx := node.TxSpec{K: "create", From: 0, Data: hex.EncodeToString(init), Gas: p.FCGas, Salt: fmt.Sprintf("c12fct-%d", p.Seed)}.Build()
	receipts, _, _, _ := ec.execBlock(ec.height+1, []*types.Transaction{tx}, true)
	if len(receipts) != 1 {
		return viol(0, "no-receipt", "failed-creation", "%d receipts for 1 transaction", len(receipts))
	}
	rc := receipts[0]
	post := ec.state()
	slot1 := common.BigToHash(big.NewInt(1))
	existsAt := func(a common.Address) bool {
		return post.GetNonce(a) != 0 || len(post.GetCode(a)) > 0 || post.GetState(a, slot1) != (common.Hash{}) || post.GetBalance(a).Sign() != 0
	}
	st.State(simrt.HashString(fmt.Sprintf("fct|%s|%d|%v", p.FC, p.FCGas, rc.Status)))
	st.Nontrivial(simrt.HashString(fmt.Sprintf("fct|%s|%d", p.FC, p.FCGas)))
	log.Add("fctop=%s gas=%d status=%d logs=%d contract=%s msg=%.60s", p.FC, p.FCGas, rc.Status, len(rc.Logs), rc.ContractAddress.GetHexString(), rc.Msg)
	if rc.Status != types.ReceiptStatusSuccessful {
		st.Probe("creation_tx_failed")
		var left []string
		for d := uint64(0); d < 3; d++ {
			if n0+d >= 1 {
				if a := createAddress(sender, n0+d-1); existsAt(a) {
					left = append(left, a.GetHexString())
				}
			}
		}
		if len(left) > 0 || len(rc.Logs) != 0 || post.GetBalance(c12Sink).Cmp(sinkBefore) != 0 {
			return viol(0, "failed-transaction-left-trace", "creation-tx/"+where, "the creation transaction failed (%s) but left a trace: accounts %v, %d logs in its receipt, sink +%s", rc.Msg, left, len(rc.Logs), new(big.Int).Sub(post.GetBalance(c12Sink), sinkBefore))
		}
		return nil
	}
	st.Probe("creation_tx_succeeded")
	if p.FC != "small" && p.FC != "big" && p.FC != "pattern" {
		return viol(0, "creation-succeeded-unexpectedly", "creation-tx/"+where, "the creation transaction succeeded although the init code ended with %s", p.FC)
	}
	created := rc.ContractAddress
	initLog := false
	for _, l := range rc.Logs {
		if len(l.Topics) == 1 && l.Topics[0] == common.BigToHash(big.NewInt(0xC0DE)) && l.Address == created {
			initLog = true
		}
	}
	want := map[string]int{"small": 1, "big": 200000, "pattern": 32}[p.FC]
	if !initLog || len(rc.Logs) != 1 || post.GetState(created, slot1) != common.BigToHash(big.NewInt(0x55)) || len(post.GetCode(created)) != want {
		return viol(0, "successful-creation-incomplete", "creation-tx/"+where, "the creation transaction succeeded but account %s has %d bytes of code (returned %d), slot 1 = %x, %d logs in the receipt (init-code log: %v)",
			created.GetHexString(), len(post.GetCode(created)), want, post.GetState(created, slot1).Bytes()[31:], len(rc.Logs), initLog)
	}
	return nil
}

// ---- a non-contract transaction type that runs the EVM ----

// c12NodeTx: the "become a node operator" transaction calls the main node contract through the EVM and reads
// the new operator account from the four logs of that call. It follows another EVM transaction in the same
// block: its receipt must carry exactly its own four logs and the earlier transaction's receipt exactly its own.
func c12NodeTx(p *c12Plan, ec *execChain, st *simrt.Stats, log *simrt.Log) *simrt.Violation {
	viol := func(ev int, clause, where, f string, a ...interface{}) *simrt.Violation {
		return simrt.Violationf("C12", clause, where, ev, f, a...)
	}
	main := common.MainNodeContract()
	laddr := c12Addr(710)
	opAccount := c12Addr(711)
	var mc evmasm.Code
	mc.Push(0).Push(0).Op(0xa0).Push(0).Push(0).Op(0xa0).Push(0).Push(0).Op(0xa0) // three LOG0
	mc.PushBytes(common.BytesToHash(opAccount.Bytes()).Bytes()).Push(0).Op(evmasm.MSTORE).Push(32).Push(0).Op(0xa0).Op(evmasm.STOP)
	var lc evmasm.Code
	lc.Log1(0xBEEF, 3).Op(evmasm.STOP)
	common.SetBlockHeight(ec.height)
	s0 := ec.state()
	s0.SetCode(main, mc)
	s0.SetNonce(main, 1)
	s0.SetCode(laddr, lc)
	s0.SetNonce(laddr, 1)
	root, err := s0.Commit(true)
	if err == nil {
		err = middleware.AccountDBManagerInstance.GetTrieDB().Commit(root, false)
	}
	if err != nil {
		panic(runner.InfraError{Msg: "c12 node-tx deploy: " + err.Error()})
	}
	ec.root = root
	apply := node.TxSpec{K: "apply", From: 0, Miner: 23, MType: 0, Stake: 600, Salt: fmt.Sprintf("c12nt-%d", p.Seed)}.Build()
	rcs, _, _, _ := ec.execBlock(ec.height+1, []*types.Transaction{apply}, true)
	if len(rcs) != 1 || rcs[0].Status != types.ReceiptStatusSuccessful {
		st.Probe("node_tx_setup_refused")
		return nil
	}
	nodeTx := node.TxSpec{K: "node", From: 0, Salt: fmt.Sprintf("c12ntn-%d", p.Seed)}.Build()
	var txs []*types.Transaction
	switch p.NodeTx {
	case 1:
		txs = append(txs, node.TxSpec{K: "call", From: 1, To: laddr.GetHexString(), Gas: 60000000, Salt: fmt.Sprintf("c12ntc-%d", p.Seed)}.Build())
	case 3:
		var init evmasm.Code
		init.Log1(0xC0DE, 7).Push(1).Push(0).Op(evmasm.RETURN)
		txs = append(txs, node.TxSpec{K: "create", From: 1, Data: hex.EncodeToString(init), Gas: 60000000, Salt: fmt.Sprintf("c12ntd-%d", p.Seed)}.Build())
	}
	txs = append(txs, nodeTx)
	st.Fault("operator_node_transaction")
	receipts, _, _, _ := ec.execBlock(ec.height+1, txs, true)
	if len(receipts) != len(txs) {
		return viol(0, "no-receipt", "node-tx", "%d receipts for %d transactions", len(receipts), len(txs))
	}
	st.State(simrt.HashString(fmt.Sprintf("nodetx|%d|%d", p.NodeTx, receipts[len(receipts)-1].Status)))
	st.Nontrivial(simrt.HashString(fmt.Sprintf("nodetx|%d", p.NodeTx)))
	for k, rc := range receipts {
		own := 1
		if k == len(receipts)-1 {
			own = 4
			if rc.Status != types.ReceiptStatusSuccessful {
				st.Probe("node_tx_failed")
				own = 0
			} else {
				st.Probe("node_tx_succeeded")
			}
		}
		log.Add("nodetx=%d receipt %d status=%d logs=%d msg=%.60s", p.NodeTx, k, rc.Status, len(rc.Logs), rc.Msg)
		if len(rc.Logs) != own {
			return viol(k, "receipt-logs-wrong", "operator-node-tx", "receipt %d of %d (the operator-node transaction is the last) carries %d logs, the transaction emitted %d", k, len(receipts), len(rc.Logs), own)
		}
		for _, l := range rc.Logs {
			if l.TxHash != (common.Hash{}) && l.TxHash != rc.TxHash {
				return viol(k, "receipt-logs-wrong", "operator-node-tx", "receipt %d carries a log stamped with another transaction's hash", k)
			}
			if k == len(receipts)-1 && l.Address != main {
				return viol(k, "receipt-logs-wrong", "operator-node-tx", "the operator-node transaction's receipt carries a log of %s", l.Address.GetHexString())
			}
		}
	}
	return nil
}

// ---- the node's own state-modifying opcodes inside a static call ----

// c12StaticStake: contract S controls a registered miner (it is the miner's account) and executes one of
// the node's stake opcodes (STAKE / UNSTAKE / UNSTAKEALL: they move S's balance into or out of the miner's
// stake and schedule refunds); the root calls S by STATICCALL. Nothing executed inside a static call may
// modify balances or any other state: afterwards S's balance and the miner record must be as before.
func c12StaticStake(p *c12Plan, ec *execChain, st *simrt.Stats, log *simrt.Log) *simrt.Violation {
	viol := func(ev int, clause, where, f string, a ...interface{}) *simrt.Violation {
		return simrt.Violationf("C12", clause, where, ev, f, a...)
	}
	if p.SS == "authcall" {
		return c12StaticAuthCall(p, ec, st, log)
	}
	saddr, raddr := c12Addr(700), c12Addr(701)
	five := new(big.Int).Mul(big.NewInt(5), oneToken)
	var sc evmasm.Code
	switch p.SS {
	case "stake":
		sc.PushBytes(saddr.Bytes()).PushBytes(five.Bytes()).Op(0xee)
	case "unstake":
		sc.PushBytes(saddr.Bytes()).PushBytes(five.Bytes()).Op(0xef)
	default:
		sc.PushBytes(saddr.Bytes()).Op(0xeb)
	}
	sc.Push(0).Op(evmasm.MSTORE).Push(32).Push(0).Op(evmasm.RETURN)
	var rcode evmasm.Code
	rcode.Push(32).Push(0x40).Push(0).Push(0)
	op := byte(evmasm.STATICCALL)
	if p.SSPlain {
		rcode.Push(0)
		op = evmasm.CALL
	}
	rcode.PushBytes(saddr.Bytes()).Op(evmasm.GAS, op)
	rcode.Push(1).Op(evmasm.ADD).Push(2000).Op(evmasm.SSTORE)
	rcode.Op(evmasm.STOP)
	common.SetBlockHeight(ec.height)
	s0 := ec.state()
	s0.SetCode(saddr, sc)
	s0.SetNonce(saddr, 1)
	s0.AddBalance(saddr, tokens(1000))
	s0.SetCode(raddr, rcode)
	s0.SetNonce(raddr, 1)
	root, err := s0.Commit(true)
	if err == nil {
		err = middleware.AccountDBManagerInstance.GetTrieDB().Commit(root, false)
	}
	if err != nil {
		panic(runner.InfraError{Msg: "c12 deploy: " + err.Error()})
	}
	ec.root = root
	// a validator whose account is the contract
	apply := node.TxSpec{K: "apply", From: 0, Miner: 20, MType: 0, Stake: 600, AcctHex: saddr.GetHexString(), Salt: fmt.Sprintf("c12ss-%d", p.Seed)}.Build()
	rcs, _, _, _ := ec.execBlock(ec.height+1, []*types.Transaction{apply}, true)
	if len(rcs) != 1 || rcs[0].Status != types.ReceiptStatusSuccessful {
		st.Probe("stake_opcode_setup_refused")
		return nil
	}
	mid := node.MinerID(20)
	pre := ec.state()
	m0 := service.MinerManagerImpl.GetMiner(mid, pre)
	if m0 == nil {
		st.Probe("stake_opcode_setup_refused")
		return nil
	}
	bal0 := pre.GetBalance(saddr)
	tx := node.TxSpec{K: "call", From: 1, To: raddr.GetHexString(), Gas: 60000000, Salt: fmt.Sprintf("c12ssc-%d", p.Seed)}.Build()
	receipts, _, _, _ := ec.execBlock(ec.height+1, []*types.Transaction{tx}, true)
	if len(receipts) != 1 {
		return viol(0, "no-receipt", "stake-opcode", "%d receipts for 1 transaction", len(receipts))
	}
	post := ec.state()
	m1 := service.MinerManagerImpl.GetMiner(mid, post)
	bal1 := post.GetBalance(saddr)
	flag := new(big.Int).SetBytes(post.GetState(raddr, common.BigToHash(big.NewInt(2000))).Bytes()).Int64() - 1
	changed := m1 == nil || m1.Stake != m0.Stake || m1.Status != m0.Status || bal1.Cmp(bal0) != 0
	desc := "miner removed"
	if m1 != nil {
		desc = fmt.Sprintf("stake %d -> %d, status %d -> %d, contract balance %s -> %s", m0.Stake, m1.Stake, m0.Status, m1.Status, bal0, bal1)
	}
	log.Add("ss=%s plain=%v status=%d inner-success=%d %s", p.SS, p.SSPlain, receipts[0].Status, flag, desc)
	st.Fault("stake_opcode_" + p.SS)
	st.State(simrt.HashString(fmt.Sprintf("ss|%s|%v|%d|%v", p.SS, p.SSPlain, flag, changed)))
	st.Nontrivial(simrt.HashString(fmt.Sprintf("ss|%s|%v", p.SS, p.SSPlain)))
	if p.SSPlain {
		if changed {
			st.Probe("stake_opcode_effective_in_plain_call")
		}
		return nil
	}
	st.Fault("static_context")
	if changed {
		if flag == 1 {
			return viol(0, "write-in-static-context-succeeded", p.SS+"-opcode", "the %s opcode executed inside a STATICCALL reported success and modified state: %s", strings.ToUpper(p.SS), desc)
		}
		return viol(0, "failed-frame-left-trace", p.SS+"-opcode", "a STATICCALL frame that failed left state behind: %s", desc)
	}
	return nil
}

// c12StaticAuthCall: contract S authorises itself for an externally owned account (AUTH with that
// account's signature over S's address and this chain id) and then AUTHCALLs the sink with 3 wei; the root
// calls S by STATICCALL. AUTHCALL bumps the authorising account's nonce and moves value: inside a static
// call neither may happen.
func c12StaticAuthCall(p *c12Plan, ec *execChain, st *simrt.Stats, log *simrt.Log) *simrt.Violation {
	viol := func(ev int, clause, where, f string, a ...interface{}) *simrt.Violation {
		return simrt.Violationf("C12", clause, where, ev, f, a...)
	}
	saddr, raddr := c12Addr(710), c12Addr(711)
	key := &node.HarnessKeys[0].SK.PrivKey
	authority := ethcrypto.PubkeyToAddress(key.PublicKey)
	common.SetBlockHeight(ec.height)
	chainID := common.GetChainId(ec.height + 1)
	commit := common.BytesToHash(common.Sha256([]byte(fmt.Sprintf("c12-commit-%d", p.Seed))))
	msg := make([]byte, 97)
	msg[0] = 0x03
	copy(msg[1:33], common.BigToHash(chainID).Bytes())
	copy(msg[33:65], common.BytesToHash(saddr.Bytes()).Bytes())
	copy(msg[65:], commit.Bytes())
	sig, err := ethcrypto.Sign(ethcrypto.Keccak256(msg), key)
	if err != nil {
		panic(runner.InfraError{Msg: "c12 authcall: sign: " + err.Error()})
	}
	s0 := ec.state()
	nonce0 := s0.GetNonce(authority)
	var sc evmasm.Code
	word := func(b []byte) []byte { return common.BytesToHash(b).Bytes() }
	for i, w := range [][]byte{word([]byte{sig[64]}), word(sig[0:32]), word(sig[32:64]), commit.Bytes()} {
		sc.PushBytes(w).Push(uint64(0x100 + 32*i)).Op(evmasm.MSTORE)
	}
	sc.Push(128).Push(0x100).PushBytes(authority.Bytes()).Op(0xf6) // AUTH -> bool
	sc.Op(evmasm.POP)
	// AUTHCALL(nonce, gas, addr, value, valueExt, argsOffset, argsLength, retOffset, retLength)
	sc.Push(0).Push(0).Push(0).Push(0).Push(0).Push(3).PushBytes(c12Sink.Bytes()).Push(200000).Push(nonce0).Op(0xf7)
	sc.Push(0).Op(evmasm.MSTORE).Push(32).Push(0).Op(evmasm.RETURN)
	var rcode evmasm.Code
	rcode.Push(32).Push(0x40).Push(0).Push(0)
	op := byte(evmasm.STATICCALL)
	if p.SSPlain {
		rcode.Push(0)
		op = evmasm.CALL
	}
	rcode.PushBytes(saddr.Bytes()).Op(evmasm.GAS, op)
	rcode.Push(1).Op(evmasm.ADD).Push(2000).Op(evmasm.SSTORE)
	rcode.Push(0x40).Op(evmasm.MLOAD).Push(1).Op(evmasm.ADD).Push(2001).Op(evmasm.SSTORE)
	rcode.Op(evmasm.STOP)
	s0.SetCode(saddr, sc)
	s0.SetNonce(saddr, 1)
	s0.SetCode(raddr, rcode)
	s0.SetNonce(raddr, 1)
	root, err := s0.Commit(true)
	if err == nil {
		err = middleware.AccountDBManagerInstance.GetTrieDB().Commit(root, false)
	}
	if err != nil {
		panic(runner.InfraError{Msg: "c12 deploy: " + err.Error()})
	}
	ec.root = root
	pre := ec.state()
	sink0 := pre.GetBalance(c12Sink)
	tx := node.TxSpec{K: "call", From: 1, To: raddr.GetHexString(), Gas: 60000000, Salt: fmt.Sprintf("c12ac-%d", p.Seed)}.Build()
	receipts, _, _, _ := ec.execBlock(ec.height+1, []*types.Transaction{tx}, true)
	if len(receipts) != 1 {
		return viol(0, "no-receipt", "authcall-opcode", "%d receipts for 1 transaction", len(receipts))
	}
	post := ec.state()
	flag := new(big.Int).SetBytes(post.GetState(raddr, common.BigToHash(big.NewInt(2000))).Bytes()).Int64() - 1
	inner := new(big.Int).SetBytes(post.GetState(raddr, common.BigToHash(big.NewInt(2001))).Bytes()).Int64() - 1
	nonce1, sink1 := post.GetNonce(authority), post.GetBalance(c12Sink)
	changed := nonce1 != nonce0 || sink1.Cmp(sink0) != 0
	desc := fmt.Sprintf("authorising account's nonce %d -> %d, sink balance %s -> %s (AUTHCALL pushed %d)", nonce0, nonce1, sink0, sink1, inner)
	log.Add("ss=authcall plain=%v status=%d inner-success=%d %s", p.SSPlain, receipts[0].Status, flag, desc)
	st.Fault("stake_opcode_authcall")
	st.State(simrt.HashString(fmt.Sprintf("ss|authcall|%v|%d|%d|%v", p.SSPlain, flag, inner, changed)))
	st.Nontrivial(simrt.HashString(fmt.Sprintf("ss|authcall|%v", p.SSPlain)))
	if p.SSPlain {
		if changed {
			st.Probe("authcall_effective_in_plain_call")
		}
		return nil
	}
	st.Fault("static_context")
	if changed {
		if flag == 1 {
			return viol(0, "write-in-static-context-succeeded", "authcall-opcode", "AUTHCALL executed inside a STATICCALL modified state while the static call reported success: %s", desc)
		}
		return viol(0, "failed-frame-left-trace", "authcall-opcode", "a STATICCALL frame that failed left state behind: %s", desc)
	}
	return nil
}
