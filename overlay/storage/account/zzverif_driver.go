//go:build verif
// +build verif

package account

import "com.tuntun.rangers/node/src/common"

// SimResetProcessCaches clears package-level caches that a freshly started process
// would not have (the cached address of the native-token contract).
func SimResetProcessCaches() { rpgContractAddress = common.Address{} }
