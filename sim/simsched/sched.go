// Package simsched is the simulator's task scheduler. Real goroutines are used, but
// exactly one task runs at a time (one run token) and WHICH task runs next is drawn
// from the plan's scheduler PRNG at every yield point. Yield points are inserted by
// the instrumenter (function entries, lock sites, `go` statements of the anchored
// packages) and by the simulated disk hooks. A schedule is therefore an exactly
// repeatable list of (task, site) pairs.
//
// The package imports nothing from the repository. All entry points are no-ops
// (or plain Go behaviour) while no simulation is active, so package initialisers and
// un-scheduled harnesses run normally.
package simsched

import (
	"fmt"
	"runtime"
	"strings"
	"sync"
	"sync/atomic"
)

type task struct {
	id       int
	name     string
	wake     parker
	done     bool
	parked   string // site at which the task is waiting for the token
	lockWait bool
	gid      uint64 // goroutine id (simrace hand-off only)
}

type Sim struct {
	mu        schedMu
	tasks     []*task
	cur       *task
	rng       uint64
	policy    string // "random" | "rtc" (run to completion) | "pct"
	maxPre    int    // preemption budget (random policy): <0 unlimited
	preempts  int
	steps     int
	maxSteps  int
	Trace     []string // (task, site) decisions, capped
	traceCap  int
	sigHash   uint64
	finished  chan struct{}
	deadlock  bool
	panicVal  interface{}
	liveCount int
	prio      []int                   // pct priorities
	wg        map[*sync.WaitGroup]int // counters of the wait groups the tasks use (WGAdd / WGDone / WGWait)
	ends      sync.WaitGroup          // every task's goroutine has returned before Run returns (an ordering the
	// race detector must see: the hidden hand-off conceals it)
}

var (
	active atomic.Pointer[Sim]
)

//go:norace
func (s *Sim) next() uint64 {
	s.rng += 0x9e3779b97f4a7c15
	z := s.rng
	z = (z ^ (z >> 30)) * 0xbf58476d1ce4e5b9
	z = (z ^ (z >> 27)) * 0x94d049bb133111eb
	return z ^ (z >> 31)
}

func goid() uint64 {
	var buf [64]byte
	n := runtime.Stack(buf[:], false)
	// "goroutine 123 ["
	var id uint64
	for i := len("goroutine "); i < n; i++ {
		c := buf[i]
		if c < '0' || c > '9' {
			break
		}
		id = id*10 + uint64(c-'0')
	}
	return id
}

//go:norace
func curTask() (*Sim, *task) {
	s := active.Load()
	if s == nil {
		return nil, nil
	}
	return s, lookupTask(s)
}

// Options of one simulated run.
type Options struct {
	Seed       uint64
	Policy     string // random | rtc
	MaxPreempt int    // random policy: stop preempting after this many switches (<0: never stop)
	MaxSteps   int
}

// Result of a run.
type Result struct {
	Steps     int
	Switches  int
	Signature uint64 // hash of the (task, site) decision sequence
	Deadlock  bool
	Trace     []string
	Panic     interface{} // first panic raised inside a task (nil if none)
}

// Run executes the given task bodies under the scheduler and returns when all have
// finished (or a deadlock / step limit is detected). Tasks spawned through Go()
// while running are scheduled as well.
//
//go:norace
func Run(o Options, names []string, bodies []func()) Result {
	s := &Sim{rng: o.Seed, policy: o.Policy, maxPre: o.MaxPreempt, maxSteps: o.MaxSteps, traceCap: 400, finished: make(chan struct{})}
	if s.policy == "" {
		s.policy = "random"
	}
	if s.maxSteps == 0 {
		s.maxSteps = 200000
	}
	if !active.CompareAndSwap(nil, s) {
		panic("simsched: a simulation is already active")
	}
	defer active.Store(nil)
	s.mu.Lock()
	for i, b := range bodies {
		s.spawnLocked(names[i], b)
	}
	first := s.pickLocked(nil)
	s.cur = first
	s.mu.Unlock()
	first.wake.wake()
	<-s.finished
	s.ends.Wait()
	clearTasks()
	return Result{Steps: s.steps, Switches: s.preempts, Signature: s.sigHash, Deadlock: s.deadlock, Trace: s.Trace, Panic: s.panicVal}
}

//go:norace
func (s *Sim) spawnLocked(name string, body func()) *task {
	t := &task{id: len(s.tasks), name: name, parked: "start"}
	t.wake.init()
	s.tasks = append(s.tasks, t)
	s.liveCount++
	s.ends.Add(1)
	go func() {
		defer s.ends.Done()
		regTask(t)
		t.wake.wait() // wait for the token
		defer func() {
			if r := recover(); r != nil {
				s.mu.Lock()
				if s.panicVal == nil {
					buf := make([]byte, 8192)
					buf = buf[:runtime.Stack(buf, false)]
					s.panicVal = fmt.Sprintf("%v\n%s", r, buf)
				}
				s.mu.Unlock()
			}
			s.exit(t)
		}()
		body()
	}()
	return t
}

// pickLocked chooses the next task to run among the live ones (all live tasks other
// than the current one are parked waiting for the token).
//
//go:norace
func (s *Sim) pickLocked(from *task) *task {
	var live []*task
	for _, t := range s.tasks {
		if !t.done {
			live = append(live, t)
		}
	}
	if len(live) == 0 {
		return nil
	}
	if from != nil && !from.done {
		switch {
		case s.policy == "rtc" && !from.lockWait:
			return from
		case s.maxPre >= 0 && s.preempts >= s.maxPre && !from.lockWait:
			return from
		}
	}
	// a task spinning on a lock must not be re-picked forever: prefer others when it waits for a lock
	if from != nil && from.lockWait && len(live) > 1 {
		var others []*task
		for _, t := range live {
			if t != from {
				others = append(others, t)
			}
		}
		return others[int(s.next()%uint64(len(others)))]
	}
	return live[int(s.next()%uint64(len(live)))]
}

//go:norace
func (s *Sim) record(t *task, site string) {
	s.steps++
	h := s.sigHash ^ (uint64(t.id+1) * 0x9e3779b97f4a7c15)
	for i := 0; i < len(site); i++ {
		h = (h ^ uint64(site[i])) * 1099511628211
	}
	s.sigHash = h
	if len(s.Trace) < s.traceCap {
		// plain concatenation: fmt's printer pool (sync.Pool) would hand the race detector
		// happens-before edges between the tasks at every traced step
		s.Trace = append(s.Trace, t.name+"@"+site)
	}
}

// yield is a scheduling point of the current task.
//
//go:norace
func (s *Sim) yield(t *task, site string, lockWait bool) {
	s.mu.Lock()
	if s.cur != t {
		// not the token holder (should not happen): ignore
		s.mu.Unlock()
		return
	}
	t.lockWait = lockWait
	s.record(t, site)
	if s.steps > s.maxSteps {
		s.deadlock = true
		s.mu.Unlock()
		panic(fmt.Sprintf("simsched: step limit exceeded at %s (livelock/deadlock under the simulated schedule)", site))
	}
	nxt := s.pickLocked(t)
	if nxt == nil || nxt == t {
		s.mu.Unlock()
		return
	}
	s.preempts++
	s.cur = nxt
	t.parked = site
	s.mu.Unlock()
	nxt.wake.wake()
	t.wake.wait()
}

//go:norace
func (s *Sim) exit(t *task) {
	s.mu.Lock()
	t.done = true
	s.liveCount--
	unregTask(t)
	nxt := s.pickLocked(nil)
	if nxt == nil {
		s.cur = nil
		s.mu.Unlock()
		close(s.finished)
		return
	}
	s.cur = nxt
	s.mu.Unlock()
	nxt.wake.wake()
}

// Yield is inserted at function entries of the anchored packages.
//
//go:norace
func Yield(site string) {
	s, t := curTask()
	if s == nil || t == nil {
		return
	}
	s.yield(t, site, false)
}

// Go replaces a `go` statement: under a simulation the goroutine becomes a task.
//
//go:norace
func Go(site string, f func()) {
	s, t := curTask()
	if s == nil || t == nil {
		// outside a simulation a short-lived goroutine is run to completion at once (the schedule in which it
		// runs first); only the service loops, which never return, become real goroutines
		if longLived(site) {
			noteEscaped(site)
			go f()
			return
		}
		f()
		return
	}
	s.mu.Lock()
	s.spawnLocked("go:"+site, f)
	s.mu.Unlock()
	s.yield(t, "spawn:"+site, false)
}

type tryLocker interface {
	TryLock() bool
	Lock()
}

// Lock replaces x.Lock(): a task never blocks the OS thread on a lock held by a parked task.
//
//go:norace
func Lock(l tryLocker, site string) {
	s, t := curTask()
	if s == nil || t == nil {
		l.Lock()
		return
	}
	s.yield(t, "lock:"+site, false)
	for !l.TryLock() {
		s.yield(t, "wait:"+site, true)
	}
	t.lockWait = false
}

type tryRLocker interface {
	TryRLock() bool
	RLock()
}

// RLock replaces x.RLock().
//
//go:norace
func RLock(l tryRLocker, site string) {
	s, t := curTask()
	if s == nil || t == nil {
		l.RLock()
		return
	}
	s.yield(t, "rlock:"+site, false)
	for !l.TryRLock() {
		s.yield(t, "wait:"+site, true)
	}
	t.lockWait = false
}

// WGAdd, WGDone, WGWait replace x.Add(n), x.Done(), x.Wait() on a sync.WaitGroup: a task that waits never
// blocks its OS thread while the tasks it waits for are parked; it yields until the counter the tasks
// themselves produced is back at zero, then calls the real Wait (which returns at once).
//
//go:norace
func WGAdd(w *sync.WaitGroup, n int) {
	if s, t := curTask(); s != nil && t != nil {
		s.mu.Lock()
		if s.wg == nil {
			s.wg = map[*sync.WaitGroup]int{}
		}
		s.wg[w] += n
		s.mu.Unlock()
	}
	w.Add(n)
}

//go:norace
func WGDone(w *sync.WaitGroup) { WGAdd(w, -1) }

//go:norace
func WGWait(w *sync.WaitGroup, site string) {
	s, t := curTask()
	if s == nil || t == nil {
		w.Wait()
		return
	}
	s.yield(t, "wgwait:"+site, false)
	for {
		s.mu.Lock()
		c := s.wg[w]
		s.mu.Unlock()
		if c <= 0 {
			break
		}
		s.yield(t, "wait:"+site, true)
	}
	t.lockWait = false
	w.Wait()
}

// longLived: `go` sites (file:line:callee) whose goroutine is a service loop or blocks on channels for the life
// of the node.
//
//go:norace
func longLived(site string) bool {
	i := strings.LastIndex(site, ":")
	callee := site[i+1:]
	if callee == "func-loop" { // a function literal with an endless loop, a select or a channel receive
		return true
	}
	if callee == "func" {
		return false
	}
	for _, w := range []string{"loop", "Loop", "receiveMessage", "logChannel", "waitUntilDone", "Sync", "sync", "requestBlockChainPiece", "triggerOnFork", "growRing"} {
		if strings.Contains(callee, w) {
			return true
		}
	}
	return false
}

// Escaped goroutines: `go` statements of the instrumented packages executed by a goroutine that is not a
// scheduler task start a REAL goroutine whose timing nobody controls. The runner reports their sites as
// probes ("escaped_go:<site>"); a harness must not leave any on a path it judges.
var (
	escapedMu sync.Mutex
	escaped   = map[string]int{}
)

//go:norace
func noteEscaped(site string) {
	escapedMu.Lock()
	escaped[site]++
	escapedMu.Unlock()
}

// TakeEscaped returns and clears the sites recorded since the last call.
func TakeEscaped() map[string]int {
	escapedMu.Lock()
	defer escapedMu.Unlock()
	out := escaped
	escaped = map[string]int{}
	return out
}

// Active reports whether the caller runs as a scheduled task.
//
//go:norace
func Active() bool {
	_, t := curTask()
	return t != nil
}
