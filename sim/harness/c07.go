package harness

import (
	"com.tuntun.rangers/node/src/zzverif/model"
	"crypto/sha256"
	"encoding/hex"
	"encoding/json"
	"fmt"
	"math/big"
	"sort"
	"strings"
	"time"

	"com.tuntun.rangers/node/src/common"
	"com.tuntun.rangers/node/src/eth_tx"
	"com.tuntun.rangers/node/src/middleware"
	"com.tuntun.rangers/node/src/middleware/notify"
	"com.tuntun.rangers/node/src/middleware/types"
	"com.tuntun.rangers/node/src/network"
	"com.tuntun.rangers/node/src/storage/rlp"
	"com.tuntun.rangers/node/src/zzverif/node"
	"com.tuntun.rangers/node/src/zzverif/runner"
	"com.tuntun.rangers/node/src/zzverif/simdisk"
	"com.tuntun.rangers/node/src/zzverif/simmap"
	"com.tuntun.rangers/node/src/zzverif/simrt"
	"com.tuntun.rangers/node/src/zzverif/simsched"
)

// C07 — only authentic transactions are admitted.
//
// Simulated system: a booted real node with its message handlers; honest clients
// sign native and EIP-155 wrapped transactions with harness keys; Byzantine peers
// and clients (transport fault "tamper") replay them after a single-field or
// single-bit mutation, through every ingress path: the peer-to-peer receive path
// (real unmarshal -> VerifyTransaction -> AddTransaction), the client write handler
// and both branches of the queued write handler. Handler goroutines are tasks of the
// simulator's scheduler.

type c07Delivery struct {
	Tx     int    `json:"tx"`
	Mut    string `json:"mut,omitempty"` // "" = intact
	Arg    int    `json:"arg,omitempty"`
	Rehash bool   `json:"rehash,omitempty"` // the tamperer also recomputes the declared hash
	Path   string `json:"path"`             // net client runwrite0 runwriteN
	// With (net path): 1+index of an honest transaction that travels intact in the same batch, behind
	// the (tampered) one, or in front of it when WithFirst
	With      int  `json:"with,omitempty"`
	WithFirst bool `json:"withfirst,omitempty"`
}

type c07Plan struct {
	Seed      uint64        `json:"seed"`
	Native    int           `json:"native"`
	Eth       int           `json:"eth"`
	Deliver   []c07Delivery `json:"deliver"`
	SchedSeed uint64        `json:"sched_seed"`
	Drivers   int           `json:"drivers,omitempty"` // >1: the deliveries are dealt out to that many concurrent transport tasks
}

type c07 struct{}

func init() { runner.Register(c07{}) }

func (c07) ID() string    { return "C07" }
func (c07) Level() string { return "exploration" }

func (c07) Budget(tier string) runner.Budget {
	if tier == "thorough" {
		return runner.Budget{Plans: 40000, PlansPerProc: 40, Wall: 14 * time.Minute}
	}
	return runner.Budget{Plans: 9600, PlansPerProc: 60, Wall: 45 * time.Second}
}

func (c07) Describe() runner.Description {
	return runner.Description{
		Rule:        "each plan: 2..6 honestly signed transactions (native with harness keys; EIP-155 wrapped Ethereum transactions for this chain id) and 10..60 deliveries, each either intact or tampered by exactly one mutation: substitution of one authenticated field (source, target, type, data, extra data, nonce, chain id, time, declared hash - with or without the tamperer recomputing the hash), signature r/s/v bit flips, signature spliced from another honest transaction, one bit flipped anywhere in the marshalled bytes (when it still parses); for wrapped transactions additionally outer-field substitutions, bit flips in the RLP payload, and inner re-encodings (to/nonce/value/gas/data/chain id changed under the original signature; unrecoverable signatures and other-chain signatures declaring the zero address as sender). Ingress paths: peer-to-peer TransactionGotMsg bytes (as envelope, or inside a gateway frame of every accepted method; alone or in one batch with an intact honest transaction in front of or behind it), client write topic, queued write handler (both branches). Direct probes: honest transactions of keys whose public point has a coordinate with a leading zero byte (sender address from an independent Keccak over the padded coordinates) must pass; on a chain whose id changes at a fork height, native and wrapped transactions signed for either id are verified at heights on either side of the fork in a seeded order (accepted exactly when the ids match); bytes appended behind the signed RLP payload must be refused. In 30% of the plans the deliveries are dealt out to 2-3 concurrent transport tasks, so that verifications overlap (statement-level yield points inside middleware/types); the same plans run in the race-detector stage. Exact oracle at quiescence: every pending transaction equals an honestly signed one on all authenticated fields; every honest transaction delivered intact is pending. distinct_nontrivial = distinct (ingress path, mutation kind, tx form, rehash) tuples exercised.",
		Assumptions: []string{"unauthenticated fields (request id, socket id, sub-transactions) are not mutated"},
		Real:        []string{"service.VerifyTransaction (hash, chain id, signature, EIP-155 path, compareTx)", "common secp256k1 sign/recover", "eth_tx (RLP, EIP-155 signer, ConvertTx)", "network receive path (envelope + transaction codecs)", "core game executor ingress handlers", "notify bus fan-out under the simulated scheduler"},
		Stub:        []string{"websocket gate (bytes are injected at handleMessage)", "ConsensusHelper"},
		FaultKinds:  []string{"tamper_field", "tamper_bitflip", "tamper_signature", "tamper_inner_rlp", "replay_intact", "key_with_short_coordinate", "chain_id_fork_crossed", "unprotected_eth_tx", "batch_with_honest_neighbour", "concurrent_transports"},
	}
}

var c07NativeMuts = []string{"src", "tgt", "type", "data", "extra", "nonce", "chain", "time", "hash", "sig-r", "sig-s", "sig-v", "sig-twin", "splice", "bitflip"}
var c07EthMuts = []string{"src", "tgt", "type", "data", "nonce", "chain", "hash", "extra-bit", "in-to", "in-nonce", "in-value", "in-gas", "in-data", "in-chain", "in-chain-zero", "in-garbage-zero", "in-src-zero", "extra-append", "extra-noncanon", "extra-noncanon", "bitflip"}

// RacePlan / RaceFrames: race-detector stage (DESIGN.md 13.4) over concurrent transports.
func (c07) RacePlan(seed uint64, i int) json.RawMessage {
	var p c07Plan
	json.Unmarshal(c07{}.Gen(runner.PlanSeed(seed, "C07-race", i), "quick"), &p)
	p.Drivers = 2 + i%2
	b, _ := json.Marshal(p)
	return b
}

func (c07) RaceFrames() []string {
	return []string{"/src/service.", "/src/middleware/types.", "/src/eth_tx.", "/src/common/secp256k1", "/src/common/ecies"}
}

func (c07) Gen(seed uint64, tier string) json.RawMessage {
	r := simrt.NewRand(seed)
	p := c07Plan{Seed: seed, Native: r.Range(1, 4), Eth: r.Range(0, 3), SchedSeed: r.U64()}
	n := r.Range(10, 30)
	if r.Chance(0.3) {
		n = r.Range(31, 60)
	}
	if r.Chance(0.3) {
		p.Drivers = r.Range(2, 3)
	}
	paths := []string{"net", "net", "net", "client", "runwrite0", "runwriteN"}
	for i := 0; i < n; i++ {
		d := c07Delivery{Tx: r.Intn(p.Native + p.Eth), Path: paths[r.Intn(len(paths))], Arg: r.Intn(1 << 20), Rehash: r.Chance(0.4)}
		if d.Path == "net" && r.Chance(0.3) {
			d.With, d.WithFirst = 1+r.Intn(p.Native+p.Eth), r.Chance(0.3)
		}
		if r.Chance(0.72) {
			if d.Tx < p.Native {
				d.Mut = c07NativeMuts[r.Intn(len(c07NativeMuts))]
			} else {
				d.Mut = c07EthMuts[r.Intn(len(c07EthMuts))]
			}
		}
		p.Deliver = append(p.Deliver, d)
	}
	b, _ := json.Marshal(p)
	return b
}

var secp256k1N, _ = new(big.Int).SetString("fffffffffffffffffffffffffffffffebaaedce6af48a03bbfd25e8cd0364141", 16)

// the recovery id is carried either as 0..3 or as 27..30
func flipRecID(v byte) byte {
	if v > 26 {
		return 27 + ((v - 27) ^ 1)
	}
	return v ^ 1
}

type c07Honest struct {
	tx  *types.Transaction
	eth *eth_tx.Transaction
	key int
}

func c07AuthKey(t *types.Transaction) string {
	sig := ""
	if t.Sign != nil {
		sig = hex.EncodeToString(t.Sign.Bytes())
	}
	if t.Type == types.TransactionTypeETHTX {
		// a wrapped transaction is authenticated by its signed RLP payload: sender, target, nonce,
		// value/gas/data (the Data json), hash, chain id. Time and the native Sign field are not part of it.
		return strings.Join([]string{t.Source, t.Target, fmt.Sprint(t.Type), t.Data, t.ExtraData, fmt.Sprint(t.Nonce), t.ChainId, "", t.Hash.Hex(), ""}, "|")
	}
	return strings.Join([]string{t.Source, t.Target, fmt.Sprint(t.Type), t.Data, t.ExtraData, fmt.Sprint(t.Nonce), t.ChainId, t.Time, t.Hash.Hex(), sig}, "|")
}

// c07EthValue: a third of the wrapped Ethereum transactions move no value (plain contract calls).
func c07EthValue(i int) *big.Int {
	if i%3 == 1 {
		return big.NewInt(0)
	}
	return big.NewInt(int64(1000 + i))
}

// rlpSplitList returns the raw encodings of the items of an RLP list (nil, false if b is not exactly one list).
func rlpSplitList(b []byte) ([][]byte, bool) {
	if len(b) == 0 || b[0] < 0xc0 {
		return nil, false
	}
	hdr := func(b []byte, short, long byte) (start, end int, ok bool) {
		switch {
		case b[0] <= short+55:
			start, end = 1, 1+int(b[0]-short)
		default:
			ll := int(b[0] - long)
			if ll > 4 || len(b) < 1+ll {
				return 0, 0, false
			}
			n := 0
			for _, x := range b[1 : 1+ll] {
				n = n<<8 | int(x)
			}
			start, end = 1+ll, 1+ll+n
		}
		return start, end, end <= len(b)
	}
	start, end, ok := hdr(b, 0xc0, 0xf7)
	if !ok || end != len(b) {
		return nil, false
	}
	var items [][]byte
	for p := b[start:end]; len(p) > 0; {
		n := 1
		switch {
		case p[0] < 0x80:
		case p[0] < 0xc0:
			_, e, ok := hdr(p, 0x80, 0xb7)
			if !ok {
				return nil, false
			}
			n = e
		default:
			_, e, ok := hdr(p, 0xc0, 0xf7)
			if !ok {
				return nil, false
			}
			n = e
		}
		items = append(items, append([]byte{}, p[:n]...))
		p = p[n:]
	}
	return items, true
}

func rlpJoinList(items [][]byte) []byte {
	var body []byte
	for _, it := range items {
		body = append(body, it...)
	}
	if len(body) <= 55 {
		return append([]byte{0xc0 + byte(len(body))}, body...)
	}
	var l []byte
	for n := len(body); n > 0; n >>= 8 {
		l = append([]byte{byte(n)}, l...)
	}
	return append(append([]byte{0xf7 + byte(len(l))}, l...), body...)
}

func flipBit(b []byte, i int) []byte {
	c := append([]byte{}, b...)
	if len(c) == 0 {
		return c
	}
	i %= len(c) * 8
	c[i/8] ^= 1 << uint(i%8)
	return c
}

// c07Mutate returns the tampered copy (nil when the mutation is not applicable or would not change anything).
func c07Mutate(h c07Honest, all []c07Honest, d c07Delivery, chainID *big.Int) *types.Transaction {
	t := *h.tx
	if t.Sign != nil {
		s := *t.Sign
		t.Sign = &s
	}
	orig := c07AuthKey(&t)
	rehash := func() {
		if d.Rehash && t.Type != types.TransactionTypeETHTX {
			t.Hash = t.GenHash()
		}
	}
	sigMut := func(off int) {
		if t.Sign == nil {
			return
		}
		b := flipBit(t.Sign.Bytes(), off*8+d.Arg%8+8*(d.Arg/8%32))
		t.Sign = common.BytesToSign(b)
	}
	switch d.Mut {
	case "src":
		t.Source = node.Account(4 + (h.key+1+d.Arg%3)%4)
		rehash()
	case "tgt":
		t.Target = node.Account(d.Arg % 8)
		rehash()
	case "type":
		t.Type = []int32{100, 200, 188, 2, 4}[d.Arg%5]
		rehash()
	case "data":
		if t.Type == types.TransactionTypeETHTX {
			var cd types.ContractData
			json.Unmarshal([]byte(t.Data), &cd)
			switch d.Arg % 3 {
			case 0:
				cd.GasLimit = cd.GasLimit + "0"
			case 1:
				cd.TransferValue = "7" + cd.TransferValue
			default:
				cd.AbiData = cd.AbiData + "00"
			}
			b, _ := json.Marshal(cd)
			t.Data = string(b)
		} else {
			t.Data = t.Data + "x"
		}
		rehash()
	case "extra":
		t.ExtraData = strings.Replace(t.ExtraData, "1", "9", 1) + " "
		rehash()
	case "nonce":
		t.Nonce += uint64(1 + d.Arg%3)
		rehash()
	case "chain":
		t.ChainId = []string{"1", "2025", "9527", ""}[d.Arg%4]
		rehash()
	case "time":
		t.Time = t.Time + "Z"
		rehash()
	case "hash":
		t.Hash = common.BytesToHash(flipBit(t.Hash.Bytes(), d.Arg))
	case "sig-r":
		sigMut(0)
	case "sig-s":
		sigMut(32)
	case "sig-v":
		if t.Sign != nil {
			b := t.Sign.Bytes()
			b[64] = flipRecID(b[64])
			t.Sign = common.BytesToSign(b)
		}
	case "sig-v-enc":
		// same recovery id in the other accepted encoding (27..30 <-> 0..3): the signature bytes change
		if t.Sign == nil {
			return nil
		}
		b := t.Sign.Bytes()
		if b[64] > 26 {
			b[64] -= 27
		} else {
			b[64] += 27
		}
		t.Sign = common.BytesToSign(b)
	case "sig-twin":
		// the algebraic twin (r, n-s, recovery id flipped): another valid ECDSA signature of the same
		// key over the same hash; the unmodified verifier refuses it (high s)
		if t.Sign == nil {
			return nil
		}
		b := t.Sign.Bytes()
		sv := new(big.Int).SetBytes(b[32:64])
		sv.Sub(secp256k1N, sv)
		sb := sv.Bytes()
		for i := 32; i < 64; i++ {
			b[i] = 0
		}
		copy(b[64-len(sb):64], sb)
		b[64] = flipRecID(b[64])
		t.Sign = common.BytesToSign(b)
	case "splice":
		for _, o := range all {
			if o.tx.Hash != h.tx.Hash && o.tx.Sign != nil {
				s := *o.tx.Sign
				t.Sign = &s
				break
			}
		}
	case "bitflip":
		raw, err := types.MarshalTransaction(&t)
		if err != nil {
			return nil
		}
		var m types.Transaction
		if where, _ := guarded(func() { m, err = types.UnMarshalTransaction(flipBit(raw, d.Arg)) }); where != "" || err != nil {
			return nil // parser totality is C09's subject
		}
		t = m
	case "extra-bit":
		raw := common.FromHex(t.ExtraData)
		t.ExtraData = common.ToHex(flipBit(raw, d.Arg))
	case "extra-append":
		// bytes behind the signed RLP item: hash, sender and nonce stay those of the honest transaction
		raw := common.FromHex(t.ExtraData)
		junk := simrt.NewRand(uint64(d.Arg) + 7).Bytes(1 + d.Arg%3)
		t.ExtraData = common.ToHex(append(append([]byte{}, raw...), junk...))
	case "extra-noncanon":
		// the same field values in a second, non-canonical RLP spelling: the carried payload differs from the
		// signed bytes, every decoded field is the honest one
		items, ok := rlpSplitList(common.FromHex(t.ExtraData))
		if !ok || len(items) != 9 {
			return nil
		}
		ints := []int{0, 1, 2, 4, 6, 7, 8} // nonce, gas price, gas, value, v, r, s
		done := false
		for off := 0; off < len(ints) && !done; off++ {
			j := ints[(d.Arg+off)%len(ints)]
			it := items[j]
			switch {
			case len(it) == 1 && it[0] == 0x80: // zero: the empty string -> a lone zero byte
				items[j], done = []byte{0x00}, true
			case len(it) == 1 && it[0] < 0x80: // a single small byte -> a one-byte string
				items[j], done = []byte{0x81, it[0]}, true
			case it[0] > 0x80 && it[0] < 0xb7: // a short string -> one leading zero byte more
				items[j], done = append([]byte{it[0] + 1, 0x00}, it[1:]...), true
			}
		}
		if !done {
			return nil
		}
		t.ExtraData = common.ToHex(rlpJoinList(items))
	case "in-to", "in-nonce", "in-value", "in-gas", "in-data", "in-chain", "in-chain-zero", "in-garbage-zero", "in-src-zero":
		e := h.eth
		to := common.Address{}
		if e.To() != nil {
			to = *e.To()
		}
		nonce, val, gas, data := e.Nonce(), e.Value(), e.Gas(), e.Data()
		cid := new(big.Int).Set(chainID)
		switch d.Mut {
		case "in-to":
			to = common.HexToAddress(node.Account(d.Arg % 8))
			if e.To() != nil && to == *e.To() {
				to[0] ^= 1
			}
		case "in-nonce":
			nonce += uint64(1 + d.Arg%3)
		case "in-value":
			val = new(big.Int).Add(val, big.NewInt(int64(1+d.Arg%1000)))
		case "in-gas":
			gas += uint64(1 + d.Arg%1000)
		case "in-data":
			data = append(data, byte(d.Arg))
		case "in-chain", "in-chain-zero":
			cid = big.NewInt(int64(1 + d.Arg%9000))
			if cid.Cmp(chainID) == 0 {
				cid.Add(cid, big.NewInt(1))
			}
		}
		forged := eth_tx.NewTransaction(nonce, to, val, gas, e.GasPrice(), data)
		v, rr, ss := e.RawSignatureValues()
		sig := make([]byte, 65)
		rb, sb := rr.Bytes(), ss.Bytes()
		copy(sig[32-len(rb):32], rb)
		copy(sig[64-len(sb):64], sb)
		rec := new(big.Int).Sub(v, new(big.Int).Add(big.NewInt(35), new(big.Int).Mul(chainID, big.NewInt(2))))
		sig[64] = byte(rec.Uint64() & 1)
		if d.Mut == "in-garbage-zero" {
			// a signature from which no sender can be recovered (r = s = 0, or r beyond the group order)
			for i := range sig[:64] {
				sig[i] = 0
			}
			if d.Arg%2 == 1 {
				for i := range sig[:32] {
					sig[i] = 0xff
				}
				sig[63] = 1
			}
		}
		signed, err := forged.WithSignature(eth_tx.NewEIP155Signer(cid), sig)
		if err != nil {
			return nil
		}
		enc, err := rlp.EncodeToBytes(signed)
		if err != nil {
			return nil
		}
		// the tamperer claims the original sender - or, where recovery cannot succeed, the zero address
		// (what a careless verifier holds in its "recovered sender" variable after a failed recovery)
		claimed := common.HexToAddress(h.tx.Source)
		if strings.HasSuffix(d.Mut, "-zero") {
			claimed = common.Address{}
		}
		c := eth_tx.ConvertTx(signed, claimed, enc)
		t = *c
		if strings.HasPrefix(d.Mut, "in-chain") {
			t.ChainId = h.tx.ChainId // and this chain
		}
	default:
		return nil
	}
	if c07AuthKey(&t) == orig {
		return nil
	}
	return &t
}

func (c07) Exec(raw json.RawMessage, st *simrt.Stats, log *simrt.Log) *simrt.Violation {
	var p c07Plan
	if err := json.Unmarshal(raw, &p); err != nil {
		panic(runner.InfraError{Msg: "bad plan: " + err.Error()})
	}
	simmap.Seed = simrt.Mix(p.Seed, 0x6d6170) | 1
	disk := simdisk.NewDisk()
	n := node.Boot(disk, node.ForksLatestSync, true)
	network.SimInit(nil)
	height := common.GetBlockHeight()
	middleware.AccountDBManagerInstance.Height = height
	chainID := common.GetChainId(height)
	viol := func(ev int, clause, where, f string, a ...interface{}) *simrt.Violation {
		return simrt.Violationf("C07", clause, where, ev, f, a...)
	}
	var honest []c07Honest
	for i := 0; i < p.Native; i++ {
		k := i % 4
		s := node.TxSpec{K: "xfer", From: 4 + k, Nonce: uint64(i), Targets: []node.Target{{A: node.Account((k + 1) % 8), V: fmt.Sprintf("%d", i+1)}}, Salt: fmt.Sprintf("h%d", i), Signed: true}
		tx := s.Build()
		tx.ChainId = common.ChainId(height)
		tx.Hash = tx.GenHash()
		sg := node.HarnessKeys[k].SK.Sign(tx.Hash.Bytes())
		tx.Sign = &sg
		tx.SubTransactions = []types.UserData{{}}
		honest = append(honest, c07Honest{tx: tx, key: k})
	}
	for i := 0; i < p.Eth; i++ {
		k := (i + 1) % 4
		e := eth_tx.NewTransaction(uint64(i), common.HexToAddress(node.Account(i%8)), c07EthValue(i), 3000000+uint64(i), big.NewInt(1000000000), []byte{1, 2, byte(i)})
		signed, err := eth_tx.SignTx(e, eth_tx.NewEIP155Signer(chainID), &node.HarnessKeys[k].SK.PrivKey)
		if err != nil {
			panic(runner.InfraError{Msg: "eth sign: " + err.Error()})
		}
		enc, _ := rlp.EncodeToBytes(signed)
		sender, err := eth_tx.Sender(eth_tx.NewEIP155Signer(chainID), signed)
		if err != nil {
			panic(runner.InfraError{Msg: "eth sender: " + err.Error()})
		}
		tx := eth_tx.ConvertTx(signed, sender, enc)
		tx.SubTransactions = []types.UserData{{}}
		honest = append(honest, c07Honest{tx: tx, eth: signed, key: k})
	}
	if len(honest) == 0 {
		return nil
	}
	authentic := map[string]int{}
	for i, h := range honest {
		authentic[c07AuthKey(h.tx)] = i
	}
	intact := map[int]bool{}
	tuples := map[string]bool{}

	var directViol *simrt.Violation
	drivers := p.Drivers
	if drivers < 1 {
		drivers = 1
	}
	deliverPart := func(part int) {
		for i, d := range p.Deliver {
			if i%drivers != part {
				continue
			}
			h := honest[d.Tx%len(honest)]
			var tx *types.Transaction
			if d.Mut == "" {
				c := *h.tx
				tx = &c
				intact[d.Tx%len(honest)] = true
				st.Fault("replay_intact")
			} else {
				tx = c07Mutate(h, honest, d, chainID)
				if tx == nil {
					st.Probe("mutation_not_applicable")
					continue
				}
				switch {
				case strings.HasPrefix(d.Mut, "sig") || d.Mut == "splice":
					st.Fault("tamper_signature")
				case strings.HasPrefix(d.Mut, "in-"):
					st.Fault("tamper_inner_rlp")
				case d.Mut == "bitflip" || d.Mut == "extra-bit":
					st.Fault("tamper_bitflip")
				default:
					st.Fault("tamper_field")
				}
			}
			if len(tx.SubTransactions) == 0 {
				tx.SubTransactions = []types.UserData{{}}
			}
			// the verification entry point itself, in the pool state of this moment
			{
				c := *tx
				verr := n.Pool.VerifyTransaction(&c, height)
				if d.Mut != "" && verr == nil && directViol == nil {
					form := "native"
					if h.eth != nil {
						form = "eth"
					}
					directViol = viol(i, "tampered-tx-passes-verification", form+"-"+d.Mut, "VerifyTransaction accepted transaction %d after mutation %q (rehash=%v) at delivery %d", d.Tx%len(honest), d.Mut, d.Rehash, i)
				}
				if d.Mut == "" && verr != nil && directViol == nil {
					directViol = viol(i, "honest-tx-rejected", "verify", "VerifyTransaction rejected honest transaction %d: %v", d.Tx%len(honest), verr)
				}
			}
			form := "native"
			if h.eth != nil {
				form = "eth"
			}
			tuples[fmt.Sprintf("%s/%s/%s/%v", d.Path, d.Mut, form, d.Rehash && d.Mut != "")] = true
			log.Add("%d deliver tx%d mut=%q rehash=%v path=%s", i, d.Tx%len(honest), d.Mut, d.Rehash, d.Path)
			st.Ops++
			switch d.Path {
			case "net":
				batch := []*types.Transaction{tx}
				if d.With > 0 {
					// a peer answers with a batch: a forged and an honest transaction side by side
					wi := (d.With - 1) % len(honest)
					c := *honest[wi].tx
					if len(c.SubTransactions) == 0 {
						c.SubTransactions = []types.UserData{{}}
					}
					intact[wi] = true
					if d.WithFirst {
						batch = []*types.Transaction{&c, tx}
					} else {
						batch = append(batch, &c)
					}
					st.Fault("batch_with_honest_neighbour")
				}
				body, err := types.MarshalTransactions(batch)
				if err != nil {
					continue
				}
				env, _ := network.SimMarshalMessage(network.Message{Code: network.TransactionGotMsg, Body: body})
				if d.Arg%2 == 0 {
					network.SimDeliver(env, "peer-7")
				} else {
					// as a websocket frame relayed by the gateway (send / broadcast / group / to-manager method)
					methods := network.SimMethods()
					mi := (d.Arg / 2) % 4
					fb := env
					if mi == 3 {
						fb = append(make([]byte, 32), env...)
					}
					network.SimFrame(network.SimFrameFor(methods[mi], 7, fb))
				}
			case "client":
				notify.BUS.Publish(notify.ClientTransactionWrite, &notify.ClientTransactionMessage{Tx: *tx, UserId: "u", Nonce: 0, GateNonce: 0})
			case "runwrite0":
				middleware.SimRunWrite(&notify.ClientTransactionMessage{Tx: *tx, UserId: "", Nonce: 0, GateNonce: 0})
			default:
				middleware.SimRunWrite(&notify.ClientTransactionMessage{Tx: *tx, UserId: "", Nonce: uint64(5 + i), GateNonce: 0})
			}
		}
	}
	var names []string
	var bodies []func()
	for k := 0; k < drivers; k++ {
		k := k
		names = append(names, fmt.Sprintf("driver%d", k))
		bodies = append(bodies, func() { deliverPart(k) })
	}
	if drivers > 1 {
		st.Fault("concurrent_transports")
	}
	res := simsched.Run(simsched.Options{Seed: p.SchedSeed, Policy: "random", MaxPreempt: -1, MaxSteps: 400000}, names, bodies)
	if res.Panic != nil {
		return viol(-1, "host-panic", "ingress", "a handler panicked: %v", res.Panic)
	}
	if res.Deadlock {
		return viol(-1, "deadlock", "ingress", "deadlock under the simulated schedule")
	}
	st.Evaluations++
	if directViol != nil {
		return directViol
	}
	if v := c07KeyAndForkProbes(&p, n, height, st); v != nil {
		return v
	}
	// exact oracle at quiescence
	pending := n.Pool.GetReceived()
	sort.Slice(pending, func(i, j int) bool { return pending[i].Hash.Hex() < pending[j].Hash.Hex() })
	got := map[int]bool{}
	for _, t := range pending {
		i, ok := authentic[c07AuthKey(t)]
		if !ok {
			form := "native"
			if t.Type == types.TransactionTypeETHTX {
				form = "eth"
			}
			// which mutation let it in? find the closest honest transaction
			field := "unknown"
			for _, h := range honest {
				a, b := strings.Split(c07AuthKey(h.tx), "|"), strings.Split(c07AuthKey(t), "|")
				diff := []string{}
				names := []string{"source", "target", "type", "data", "extra", "nonce", "chain", "time", "hash", "sign"}
				for k := range a {
					if a[k] != b[k] {
						diff = append(diff, names[k])
					}
				}
				if len(diff) <= 3 {
					field = strings.Join(diff, "+")
				}
			}
			return viol(-1, "forged-tx-admitted", form+"-"+field, "the pool holds a transaction that no honest client signed: %s", t.ToTxJson().ToString())
		}
		got[i] = true
	}
	for i := range intact {
		if !got[i] {
			form := "native"
			if honest[i].eth != nil {
				form = "eth"
			}
			return viol(-1, "honest-tx-rejected", form, "honest transaction %d was delivered intact but is not pending", i)
		}
	}
	for k := range tuples {
		st.Nontrivial(simrt.HashString(k))
		st.State(simrt.HashString(k))
	}
	return c07UnprotectedProbe(&p, n, height, st)
}

func (c07) Shrink(raw json.RawMessage) []json.RawMessage {
	var p c07Plan
	json.Unmarshal(raw, &p)
	var out []json.RawMessage
	for chunk := len(p.Deliver) / 2; chunk >= 1; chunk /= 2 {
		for s := 0; s+chunk <= len(p.Deliver); s += chunk {
			q := p
			q.Deliver = append(append([]c07Delivery{}, p.Deliver[:s]...), p.Deliver[s+chunk:]...)
			b, _ := json.Marshal(q)
			out = append(out, b)
		}
	}
	return out
}

// c07OddKeys: private keys whose public point has a coordinate with a leading zero byte (about 1 in 128
// per coordinate): the class where "hash of the coordinates" and "hash of the 32-byte padded coordinates"
// differ. Found once per process by searching seeded scalars.
var c07OddKeys []*common.PrivateKey

func c07FindOddKeys() {
	if c07OddKeys != nil {
		return
	}
	for i := 0; len(c07OddKeys) < 2 && i < 4000; i++ {
		h := sha256.Sum256([]byte(fmt.Sprintf("c07-odd-key-%d", i)))
		sk := common.HexStringToSecKey("0x" + hex.EncodeToString(h[:]))
		pk := sk.GetPubKey()
		if len(pk.PubKey.X.Bytes()) < 32 || len(pk.PubKey.Y.Bytes()) < 32 {
			c07OddKeys = append(c07OddKeys, sk)
		}
	}
}

// c07RefAddress derives the account address of a public key independently of the node's code:
// last 20 bytes of Keccak-256(X padded to 32 bytes || Y padded to 32 bytes).
func c07RefAddress(sk *common.PrivateKey) string {
	pk := sk.GetPubKey()
	buf := make([]byte, 64)
	x, y := pk.PubKey.X.Bytes(), pk.PubKey.Y.Bytes()
	copy(buf[32-len(x):32], x)
	copy(buf[64-len(y):], y)
	return common.ToHex(model.Keccak(buf)[12:])
}

// c07KeyAndForkProbes: direct VerifyTransaction probes that need their own keys or chain configuration.
func c07KeyAndForkProbes(p *c07Plan, n *node.Node, height uint64, st *simrt.Stats) *simrt.Violation {
	viol := func(ev int, clause, where, f string, a ...interface{}) *simrt.Violation {
		return simrt.Violationf("C07", clause, where, ev, f, a...)
	}
	mkNative := func(sk *common.PrivateKey, source, chain, salt string) *types.Transaction {
		tx := node.RawTx(types.TransactionTypeOperatorEvent, source, "", 0, "", `{"`+node.Account(1)+`":{"balance":"1"}}`, salt)
		tx.ChainId = chain
		tx.Hash = tx.GenHash()
		sg := sk.Sign(tx.Hash.Bytes())
		tx.Sign = &sg
		return tx
	}
	// keys with a short coordinate: the honest owner declares the address derived by the reference formula
	c07FindOddKeys()
	for i, sk := range c07OddKeys {
		ref := c07RefAddress(sk)
		st.Fault("key_with_short_coordinate")
		if err := n.Pool.VerifyTransaction(mkNative(sk, ref, common.ChainId(height), fmt.Sprintf("odd-%d-%d", p.Seed, i)), height); err != nil {
			return viol(i, "honest-tx-rejected", "key-with-short-coordinate", "an honestly signed transaction of a key whose public point has a coordinate with a leading zero byte is rejected (declared sender = Keccak of the padded coordinates): %v", err)
		}
		other := c07RefAddress(node.HarnessKeys[0].SK)
		if err := n.Pool.VerifyTransaction(mkNative(sk, other, common.ChainId(height), fmt.Sprintf("odd-x-%d-%d", p.Seed, i)), height); err == nil {
			return viol(i, "tampered-tx-passes-verification", "native-foreign-source", "a transaction signed by one key and declaring another key's address as sender is accepted")
		}
	}
	if p.Seed%3 != 0 {
		return nil
	}
	// a chain whose id changed at a fork height (as on the main network): every transaction is judged by the
	// chain id of the height it is verified at, whatever was verified before in this process
	cfg := &common.LocalChainConfig
	oldOrig, oldP1 := cfg.OriginalChainId, cfg.Proposal001Block
	defer func() { cfg.OriginalChainId, cfg.Proposal001Block = oldOrig, oldP1 }()
	forkAt := height + 5
	cfg.OriginalChainId, cfg.Proposal001Block = "8888", forkAt
	st.Fault("chain_id_fork_crossed")
	hs := map[string]uint64{"before": forkAt - 1, "after": forkAt + 1}
	mkEth := func(h uint64, i int) *types.Transaction {
		id := common.GetChainId(h)
		e := eth_tx.NewTransaction(uint64(i), common.HexToAddress(node.Account(2)), big.NewInt(int64(5+i)), 3000000, big.NewInt(1000000000), []byte{9, byte(i)})
		signed, err := eth_tx.SignTx(e, eth_tx.NewEIP155Signer(id), &node.HarnessKeys[1].SK.PrivKey)
		if err != nil {
			panic(runner.InfraError{Msg: "eth sign: " + err.Error()})
		}
		enc, _ := rlp.EncodeToBytes(signed)
		sender, _ := eth_tx.Sender(eth_tx.NewEIP155Signer(id), signed)
		return eth_tx.ConvertTx(signed, sender, enc)
	}
	type probe struct {
		signedFor, at string
		eth           bool
	}
	var probes []probe
	for _, a := range []string{"before", "after"} {
		for _, b := range []string{"before", "after"} {
			probes = append(probes, probe{a, b, false}, probe{a, b, true})
		}
	}
	r := simrt.NewRand(p.Seed ^ 0xf07c)
	for k, x := range r.Perm(len(probes)) {
		pr := probes[x]
		var tx *types.Transaction
		if pr.eth {
			tx = mkEth(hs[pr.signedFor], k)
		} else {
			tx = mkNative(node.HarnessKeys[2].SK, c07RefAddress(node.HarnessKeys[2].SK), common.ChainId(hs[pr.signedFor]), fmt.Sprintf("fork-%d-%d", p.Seed, k))
		}
		err := n.Pool.VerifyTransaction(tx, hs[pr.at])
		form := map[bool]string{false: "native", true: "eth"}[pr.eth]
		if pr.signedFor == pr.at && err != nil {
			return viol(k, "honest-tx-rejected", "chain-id-"+pr.at+"-fork-"+form, "a transaction signed for the chain id valid %s the fork height is rejected when verified %s it (probe %d of a seeded order): %v", pr.signedFor, pr.at, k, err)
		}
		if pr.signedFor != pr.at && err == nil {
			return viol(k, "tampered-tx-passes-verification", form+"-chain-id-of-the-other-side-of-the-fork", "a transaction signed for the chain id valid %s the fork height is accepted when verified %s it (probe %d of a seeded order)", pr.signedFor, pr.at, k)
		}
	}
	return nil
}

// c07UnprotectedProbe runs last (what it finds on the unchanged tree is a known finding and must not hide
// anything the rest of the plan would report).
func c07UnprotectedProbe(p *c07Plan, n *node.Node, height uint64, st *simrt.Stats) *simrt.Violation {
	viol := func(ev int, clause, where, f string, a ...interface{}) *simrt.Violation {
		return simrt.Violationf("C07", clause, where, ev, f, a...)
	}
	if p.Seed%8 != 1 {
		return nil
	}
	// a wrapped Ethereum transaction signed the pre-EIP-155 way (v = 27/28: no chain id in the signed
	// payload, so it is valid on every chain) declared for this chain
	{
		e := eth_tx.NewTransaction(0, common.HexToAddress(node.Account(2)), big.NewInt(11), 3000000, big.NewInt(1000000000), []byte{7})
		signed, err := eth_tx.SignTx(e, eth_tx.HomesteadSigner{}, &node.HarnessKeys[3].SK.PrivKey)
		if err == nil {
			enc, _ := rlp.EncodeToBytes(signed)
			if sender, err := (eth_tx.HomesteadSigner{}).Sender(signed); err == nil {
				st.Fault("unprotected_eth_tx")
				for _, cid := range []string{"0", common.ChainId(height)} {
					tx := eth_tx.ConvertTx(signed, sender, enc)
					tx.ChainId = cid
					if verr := n.Pool.VerifyTransaction(tx, height); verr == nil {
						return viol(0, "tampered-tx-passes-verification", "eth-unprotected-signature-chain-"+map[bool]string{true: "zero", false: "this"}[cid == "0"], "a wrapped Ethereum transaction whose signature does not commit to any chain id (pre-EIP-155, v=27/28) is accepted with declared chain id %q", cid)
					}
				}
			}
		}
	}
	return nil
}
