//go:build verif
// +build verif

package access

import "com.tuntun.rangers/node/src/middleware/log"

// SimInitLogger initialises the package logger (normally done by NewMinerPoolReader).
func SimInitLogger() {
	if logger == nil {
		logger = log.GetLoggerByIndex(log.AccessLogConfig, "")
	}
}
