package harness

import (
	"com.tuntun.rangers/node/src/zzverif/model"
	"encoding/hex"
	"encoding/json"
	"fmt"
	"strings"
	"time"

	"com.tuntun.rangers/node/src/common"
	"com.tuntun.rangers/node/src/core"
	"com.tuntun.rangers/node/src/middleware"
	"com.tuntun.rangers/node/src/middleware/types"
	"com.tuntun.rangers/node/src/utility"
	"com.tuntun.rangers/node/src/zzverif/node"
	"com.tuntun.rangers/node/src/zzverif/runner"
	"com.tuntun.rangers/node/src/zzverif/simdisk"
	"com.tuntun.rangers/node/src/zzverif/simmap"
	"com.tuntun.rangers/node/src/zzverif/simrt"
	"com.tuntun.rangers/node/src/zzverif/simsched"
)

// C01 — block execution is replica-deterministic.
//
// Simulated system: R sequential replica incarnations of the real node, each
// executing the SAME (parent state, header, ordered transaction list), while the
// simulator varies what the statement says must not matter: the seeded map
// iteration order (instrumented build), the wall clock, cache warmness / first-touch
// order, and the process-local context (cold boot from a disk image vs a warm node).
// Plus the protocol path: a proposer incarnation casts, a different incarnation must
// accept the block (its checkStates recomputes state root, receipts root, tx root).

type c01Replica struct {
	MapSeed uint64 `json:"map"`
	ClockS  int64  `json:"clock"`          // seconds added to the epoch
	StepMs  int64  `json:"step,omitempty"` // every GetTime() call advances the clock by this much
	Warm    int    `json:"warm,omitempty"` // 0 cold boot, 1 seeded first-touch reads, 2 execute-and-discard first, 3 execute a competing block of the same height first
}

type c01Plan struct {
	Seed     uint64        `json:"seed"`
	Forks    string        `json:"forks"`
	Miners   int           `json:"miners"`           // miners registered by the setup block
	Shared   int           `json:"shared,omitempty"` // + this many proposers registered in the setup block under ONE reward account
	Conc     int           `json:"conc,omitempty"`   // >0: this many executions of the block run CONCURRENTLY in one process (plus the competing block), under ConcSeed
	ConcSeed uint64        `json:"conc_seed,omitempty"`
	Jump     uint64        `json:"jump,omitempty"`
	Redeploy bool          `json:"redeploy,omitempty"` // setup history: CREATE2 child, probed, self-destructed, redeployed at the same address with other code; the block under test probes it // height slots skipped by the block under test (miners applied in the setup count from apply height + 300)
	Txs      []node.TxSpec `json:"txs"`
	CastStep int64         `json:"cast_step,omitempty"` // ms the proposer's clock advances at every reading while it casts (its 3 s budget can run out mid-block)
	Alt      []node.TxSpec `json:"alt,omitempty"`       // a DIFFERENT block of the same height (replicas with warm=3 execute it first)
	QN       uint64        `json:"qn"`
	PV       int64         `json:"pv"`
	Castor   int           `json:"castor"`
	TimeMs   int64         `json:"time_ms"`
	ZoneH    int           `json:"zone_h"`
	Replicas []c01Replica  `json:"replicas"`
}

type c01 struct{}

func init() { runner.Register(c01{}) }

func (c01) ID() string    { return "C01" }
func (c01) Level() string { return "exploration" }

func (c01) Budget(tier string) runner.Budget {
	if tier == "thorough" {
		return runner.Budget{Plans: 20000, PlansPerProc: 12, Wall: 14 * time.Minute}
	}
	return runner.Budget{Plans: 2400, PlansPerProc: 12, Wall: 45 * time.Second}
}

func (c01) Describe() runner.Description {
	return runner.Description{
		Rule:        "each plan: a fixed funded parent state (2 setup blocks: funding transfers, 3 contracts, 0-2 miners) plus one seeded test block of 1..25 transactions of every executor type (operator transfers with 1-4 JSON targets incl. the source itself, the same address in different letter case, duplicate keys, zero/fractional/>18-decimal/negative/huge/malformed amounts, amounts exhausting the balance part-way; miner apply/add-stake/refund/change-account valid and invalid; contract create/call (native type and the wrapped-Ethereum type 188 form, nonce in sequence / too low / too high) of programs that SSTORE, LOG, move value, REVERT, self-destruct, burn all gas; repeated and out-of-order nonces; add-stake to the genesis proposers; 15% proposer-heavy blocks). In 40% of the plans the block under test skips 300..420 height slots so that miners registered by the setup (optionally 3-5 proposers sharing ONE reward account) are counted in the reward step; half of the plans carry a competing block of the same height that moves proposer stakes. In 25% of the plans the setup history replaces the code at a fixed address (CREATE2 child probed by EXTCODESIZE, self-destructed, re-created with longer code) and the block under test probes it again. The block is executed first by the long-running incarnation that executed the whole setup history, then by R=4 (quick) / 8 (thorough) replica incarnations differing in seeded map-iteration order, wall clock (epoch, per-call drift), cold boot from the parent's disk image vs warm node with seeded first-touch reads or an executed-and-discarded block vs a fresh incarnation whose only history is the competing block of the same height; state root, evicted list, executed list and every receipt (status, result text, logs, gas, contract address) must be byte-identical. Then a proposer incarnation casts the block through the pool - in 30% of the plans with a clock that advances 40..1500 ms at every reading, so that its casting time budget runs out at some transaction - and a differently seeded incarnation must accept the block. distinct_nontrivial = distinct (tx-kind multiset, outcome vector) pairs of blocks with >=2 transactions or a multi-target transfer.",
		Assumptions: []string{"replicas are sequential incarnations in one process (singletons): process-local caches are reset the way a fresh process starts", "fork configuration fixed per plan (latestsync or devlike)"},
		Real:        []string{"core/vmexecutor + all executors", "service (ChangeAssets, miner/refund/reward managers, tx pool)", "storage/account + trie", "vm (EVM)", "core cast/verify/add path"},
		Stub:        []string{"ConsensusHelper", "network", "NTP clock (simulated)"},
		FaultKinds:  []string{"map_order_seed", "clock_epoch_shift", "clock_drift_per_call", "cold_boot_replica", "warm_touch_order", "warm_discarded_block", "warm_competing_block_same_height", "concurrent_executions_in_one_process", "long_running_node_replica", "code_replaced_at_fixed_address_in_history", "proposer_clock_runs_during_cast"},
	}
}

var c01Amounts = []string{"1", "0", "0.5", "2.25", "1.0000000000000000001", "-1", "abc", "", "999999999999999999999999", "1000000000", "3", "7"}

func c01GenTx(r *simrt.Rand, i int, nonces map[int]uint64) node.TxSpec {
	from := r.Intn(8)
	s := node.TxSpec{From: from, Salt: fmt.Sprintf("t%d", i)}
	switch x := r.Intn(100); {
	case x < 45:
		s.K = "xfer"
		n := r.Range(1, 4)
		for j := 0; j < n; j++ {
			var a string
			switch r.Intn(8) {
			case 0:
				a = node.Account(from) // self
			case 1:
				a = strings.ToUpper(node.Account(r.Intn(8)))
				a = "0x" + a[2:]
			case 2:
				if len(s.Targets) > 0 {
					a = s.Targets[r.Intn(len(s.Targets))].A // duplicate key
				} else {
					a = node.Account(r.Intn(8))
				}
			case 3:
				a = fmt.Sprintf("#%d", r.Intn(5)) // credit a contract (possibly one that self-destructs in this block)
			default:
				a = node.Account(r.Intn(8))
			}
			v := c01Amounts[r.Intn(len(c01Amounts))]
			if r.Chance(0.5) {
				v = fmt.Sprintf("%d", r.Range(1, 3000))
			}
			s.Targets = append(s.Targets, node.Target{A: a, V: v})
		}
	case x < 55:
		s.K = "apply"
		s.Miner = r.Intn(4)
		s.MType = byte(r.Intn(2))
		s.Stake = []uint64{100, 400, 500, 2000, 2500}[r.Intn(5)]
		s.Acct = r.Intn(5) // 0 = the source
		s.NoPK = r.Chance(0.12)
	case x < 62:
		s.K = "addstake"
		s.Miner = r.Intn(4)
		if r.Chance(0.3) {
			s.Miner = 100 + r.Intn(2)
		}
		s.Stake = uint64(r.Range(0, 600))
	case x < 70:
		s.K = "refund"
		s.Miner = r.Intn(4)
		s.Amount = []string{"100", "400", "18446744073709551615", "999999", "0"}[r.Intn(5)]
	case x < 72:
		s.K = "node"
	case x < 75:
		s.K = "chacct"
		s.Miner = r.Intn(4)
		s.Acct = r.Intn(8)
	case x < 87:
		s.K = "create"
		s.Prog = r.Intn(8)
		s.Arg = uint64(r.Intn(5))
		s.Value = []string{"0", "0", "1", "0.5"}[r.Intn(4)]
		s.Gas = []uint64{0, 60000000, 1700000, 6000000}[r.Intn(4)]
		s.Eth = r.Chance(0.4)
	default:
		s.K = "call"
		s.To = fmt.Sprintf("#%d", r.Intn(5))
		s.Value = []string{"0", "1", "0.25", "100000000000"}[r.Intn(4)]
		s.Gas = []uint64{0, 700000, 6000000}[r.Intn(3)]
		s.Eth = r.Chance(0.4)
	}
	if s.Eth && r.Chance(0.2) {
		s.NDelta = []int{-1, 1, 2}[r.Intn(3)] // nonce too low / too high for the wrapped form
	}
	// nonces: mostly in sequence per sender, sometimes repeated or ahead
	switch r.Intn(10) {
	case 0:
		s.Nonce = nonces[from] + uint64(r.Range(1, 3))
	case 1:
		if nonces[from] > 0 {
			s.Nonce = nonces[from] - 1
		}
	default:
		s.Nonce = nonces[from]
		nonces[from]++
	}
	return s
}

func (c01) Gen(seed uint64, tier string) json.RawMessage {
	r := simrt.NewRand(seed)
	p := c01Plan{Seed: seed, Forks: string(node.ForksLatestSync), Miners: r.Intn(3), QN: uint64(r.Range(1, 3)), PV: int64(r.Range(1, 9)), Castor: r.Intn(2),
		TimeMs: int64(r.Range(1000, 9000000)), ZoneH: r.Range(-11, 12)}
	if r.Chance(0.3) {
		p.Forks = string(node.ForksDevLike)
	} else if r.Chance(0.3) {
		p.Forks = string(node.ForksLatest) // Proposal020: the proposer executes in a goroutine (a scheduler task here)
	}
	n := r.Range(1, 6)
	if r.Chance(0.3) {
		n = r.Range(7, 25)
	}
	nonces := map[int]uint64{}
	for i := 0; i < n; i++ {
		p.Txs = append(p.Txs, c01GenTx(r, i, nonces))
	}
	if r.Chance(0.15) {
		// proposer-heavy block: several applies of proposer type naming ONE reward account (accepted within
		// one block), different stakes - the end-of-block reward step then pays one account several shares
		acct := r.Range(1, 4)
		ids := r.Perm(8)
		for j, c := 0, r.Range(3, 6); j < c; j++ {
			s := node.TxSpec{K: "apply", From: r.Intn(4), Miner: ids[j], MType: 1, Stake: uint64(2000 + 100*r.Intn(40)), Acct: acct, Salt: fmt.Sprintf("ph%d", j)}
			s.Nonce = nonces[s.From]
			nonces[s.From]++
			at := r.Intn(len(p.Txs) + 1)
			p.Txs = append(p.Txs[:at], append([]node.TxSpec{s}, p.Txs[at:]...)...)
		}
	}
	if r.Chance(0.4) {
		p.Jump = uint64(r.Range(300, 420))
		if r.Chance(0.5) {
			p.Shared = r.Range(3, 5)
		}
	}
	if r.Chance(0.2) {
		p.Conc, p.ConcSeed = r.Range(2, 3), r.U64()
	}
	p.Redeploy = r.Chance(0.25)
	if r.Chance(0.5) {
		// a competing block of the same height that moves proposer stakes
		an := map[int]uint64{}
		for j, c := 0, r.Range(1, 4); j < c; j++ {
			s := node.TxSpec{From: r.Intn(8), Salt: fmt.Sprintf("alt%d", j)}
			switch r.Intn(4) {
			case 0:
				s.K, s.Miner, s.MType, s.Stake, s.Acct = "apply", r.Intn(8), 1, uint64(2000+100*r.Intn(30)), r.Intn(5)
				s.From = r.Intn(4)
			case 1:
				s.K, s.Miner, s.Stake = "addstake", []int{100, 101, 1, r.Intn(4)}[r.Intn(4)], uint64(r.Range(1, 900))
				s.From = r.Intn(4)
			case 2:
				s.K, s.Miner, s.Amount = "refund", r.Intn(4), []string{"100", "400", "1000"}[r.Intn(3)]
				s.From = 4 + s.Miner%4
			default:
				s = c01GenTx(r, 1000+j, an)
			}
			s.Nonce = an[s.From]
			an[s.From]++
			p.Alt = append(p.Alt, s)
		}
		// a miner that applies without a public key in the block under test applies WITH one in the competing
		// block: whatever the node keeps locally about keys it has seen must not decide the outcome
		for _, t := range p.Txs {
			if t.K == "apply" && t.NoPK {
				s := node.TxSpec{K: "apply", From: r.Intn(4), Miner: t.Miner, MType: t.MType, Stake: 2000 + uint64(100*r.Intn(10)), Salt: "alt-pk"}
				s.Nonce = an[s.From]
				an[s.From]++
				p.Alt = append(p.Alt, s)
				break
			}
		}
	}
	if r.Chance(0.3) {
		p.CastStep = int64(r.Range(40, 1500))
	}
	R := 4
	if tier == "thorough" {
		R = 8
	}
	for i := 0; i < R; i++ {
		rep := c01Replica{MapSeed: r.U64() | 1, ClockS: int64(r.Intn(100000000)), Warm: r.Intn(4)}
		if i == 0 {
			rep = c01Replica{MapSeed: 0, Warm: 0} // canonical order, cold
		}
		if r.Chance(0.3) {
			rep.StepMs = int64(r.Range(1, 900))
		}
		p.Replicas = append(p.Replicas, rep)
	}
	b, _ := json.Marshal(p)
	return b
}

// c01Setup builds the parent state and returns its disk image, head and contracts.
func c01Setup(p *c01Plan) (*simdisk.Disk, *types.BlockHeader, []string, [8]uint64, *node.Node, *node.TxSpec) {
	simmap.Seed = 0
	utility.SimClock = nil
	node.SetTime(node.EpochTime)
	disk := simdisk.NewDisk()
	n := node.Boot(disk, node.Forks(p.Forks), false)
	must := func(b *types.Block, err error) *types.Block {
		if err != nil {
			panic(runner.InfraError{Msg: "C01 setup: " + err.Error()})
		}
		if res := n.Chain.AddBlockOnChain(node.CloneBlock(b)); res != types.AddBlockSucc {
			panic(runner.InfraError{Msg: fmt.Sprintf("C01 setup: block rejected: %d", res)})
		}
		return b
	}
	var txs []*types.Transaction
	for i := 4; i < 8; i++ {
		txs = append(txs, node.TransferTx(node.Funded[0], 0, map[string]string{node.Account(i): "6000"}, fmt.Sprintf("fund%d", i)))
	}
	var creates []*types.Transaction
	progs := []int{0, 2, 6, 4, 5}
	if p.Redeploy {
		progs = append(progs, node.ProgFactory, node.ProgProber)
	}
	for k, prog := range progs {
		tx := node.TxSpec{K: "create", From: 1, Nonce: uint64(k), Prog: prog, Salt: fmt.Sprintf("setupc%d", k)}.Build()
		creates = append(creates, tx)
		txs = append(txs, tx)
	}
	must(c01Cast(n, node.BlockSpec{QN: 1, PV: 1, TimeMs: 1000, Txs: txs}, 1))
	var contracts []string
	for _, tx := range creates {
		ex := n.Pool.GetExecuted(tx.Hash)
		if ex == nil || ex.Receipt.Status != types.ReceiptStatusSuccessful {
			msg := "no executed record"
			if ex != nil {
				msg = ex.Receipt.Result
			}
			panic(runner.InfraError{Msg: "C01 setup: contract creation failed: " + msg})
		}
		contracts = append(contracts, ex.Receipt.ContractAddress.GetHexString())
	}
	var txs2 []*types.Transaction
	for m := 0; m < p.Miners; m++ {
		st := uint64(400)
		if m == 1 {
			st = 2000
		}
		txs2 = append(txs2, node.TxSpec{K: "apply", From: 4 + m, Miner: m, MType: byte(m), Stake: st, Salt: fmt.Sprintf("setupm%d", m)}.Build())
	}
	for j := 0; j < p.Shared; j++ {
		// several proposers whose rewards go to one account (accepted because they arrive in one block)
		txs2 = append(txs2, node.TxSpec{K: "apply", From: j % 4, Miner: 10 + j, MType: 1, Stake: uint64(2000 + 370*j + 10*(int(p.Seed%7))), Acct: 4, Salt: fmt.Sprintf("setups%d", j)}.Build())
	}
	must(c01Cast(n, node.BlockSpec{QN: 1, PV: 1, TimeMs: 2000, Txs: txs2}, 2))
	var probe *node.TxSpec
	if p.Redeploy {
		// a contract whose code changes at a fixed address: CREATE2 child (10 bytes of code), its code size
		// read by the prober, the child self-destructs, the factory creates it again with 20 bytes of code
		factory, prober := contracts[5], contracts[6]
		contracts = contracts[:5]
		buf := append([]byte{0xff}, common.HexToAddress(factory).Bytes()...)
		buf = append(buf, common.BigToHash(bigFrom(node.FactorySalt)).Bytes()...)
		buf = append(buf, model.Keccak(node.FactoryInit)...)
		child := common.BytesToAddress(model.Keccak(buf)[12:])
		word := func(v int64) string { return hex.EncodeToString(common.BigToHash(bigFrom(v)).Bytes()) }
		probeData := hex.EncodeToString(common.BytesToHash(child.Bytes()).Bytes())
		ok := func(tx *types.Transaction, what string) {
			if ex := n.Pool.GetExecuted(tx.Hash); ex == nil || ex.Receipt.Status != types.ReceiptStatusSuccessful {
				panic(runner.InfraError{Msg: "C01 setup (redeploy history): " + what + " failed"})
			}
		}
		fund := node.TransferTx(node.Funded[2], 0, map[string]string{factory: "1"}, "setupr-fund")
		mk1 := node.TxSpec{K: "call", From: 2, Nonce: 1, To: factory, Data: word(8), Salt: "setupr-mk1"}.Build()
		pr1 := node.TxSpec{K: "call", From: 2, Nonce: 2, To: prober, Data: probeData, Salt: "setupr-pr1"}.Build()
		must(c01Cast(n, node.BlockSpec{QN: 1, PV: 1, TimeMs: 3000, Txs: []*types.Transaction{fund, mk1}}, 3))
		ok(mk1, "first CREATE2")
		// probed in a LATER block: the code is then loaded through the database layer (and its caches)
		must(c01Cast(n, node.BlockSpec{QN: 1, PV: 1, TimeMs: 3500, Txs: []*types.Transaction{pr1}}, 6))
		ok(pr1, "first probe")
		kill := node.TxSpec{K: "call", From: 2, Nonce: 3, To: child.GetHexString(), Salt: "setupr-kill"}.Build()
		must(c01Cast(n, node.BlockSpec{QN: 1, PV: 1, TimeMs: 4000, Txs: []*types.Transaction{kill}}, 4))
		ok(kill, "self-destruct of the child")
		mk2 := node.TxSpec{K: "call", From: 2, Nonce: 4, To: factory, Data: word(18), Salt: "setupr-mk2"}.Build()
		must(c01Cast(n, node.BlockSpec{QN: 1, PV: 1, TimeMs: 5000, Txs: []*types.Transaction{mk2}}, 5))
		ok(mk2, "second CREATE2")
		probe = &node.TxSpec{K: "call", From: 3, To: prober, Data: probeData, Salt: "probe-redeployed"}
	}
	var nonces [8]uint64
	if state, err := middleware.AccountDBManagerInstance.GetAccountDBByHash(n.Chain.TopBlock().StateTree); err == nil {
		for i := range nonces {
			nonces[i] = state.GetNonce(common.HexToAddress(node.Account(i)))
		}
	}
	return disk.Clone(), n.Chain.TopBlock(), contracts, nonces, n, probe
}

// c01Cast casts through the exported API. With asynchronous casting active the call runs
// as a scheduler task, so the proposer's execution goroutine is a task whose interleaving
// with the verifying call is drawn from the seed, and the call returns when both are done.
func c01Cast(n *node.Node, spec node.BlockSpec, seed uint64) (*types.Block, error) {
	if !common.IsProposal020() {
		return n.CastBlock(spec)
	}
	var b *types.Block
	var err error
	res := simsched.Run(simsched.Options{Seed: seed, Policy: "random", MaxPreempt: -1, MaxSteps: 2000000}, []string{"proposer"}, []func(){func() { b, err = n.CastBlock(spec) }})
	if res.Panic != nil {
		return nil, fmt.Errorf("casting panicked: %v", res.Panic)
	}
	return b, err
}

type c01Outcome struct {
	root               string
	evicted            []string
	executed           []string
	receipts           []string // json per receipt
	kinds              []int32
	ethOK              int
	ethFail            int
	applyOK, applyFail int
}

func c01Exec(n *node.Node, parent *types.BlockHeader, hdr types.BlockHeader, txs, altTxs []*types.Transaction, rep c01Replica, seed uint64) c01Outcome {
	simmap.Seed = rep.MapSeed
	base := node.EpochTime.Add(time.Duration(rep.ClockS) * time.Second)
	if rep.StepMs > 0 {
		calls := int64(0)
		utility.SimClock = func() time.Time {
			calls++
			return base.Add(time.Duration(calls*rep.StepMs) * time.Millisecond).In(utility.SimZone())
		}
	} else {
		utility.SimClock = nil
		node.SetTime(base)
	}
	defer func() { utility.SimClock = nil }()
	mgr := &middleware.AccountDBManagerInstance
	open := func() (st interface{}) { return nil }
	_ = open
	state, err := mgr.GetAccountDBByHash(parent.StateTree)
	if err != nil {
		panic(runner.InfraError{Msg: "C01: parent state: " + err.Error()})
	}
	cp := func() []*types.Transaction {
		out := make([]*types.Transaction, len(txs))
		for i, t := range txs {
			c := *t
			out[i] = &c
		}
		return out
	}
	switch rep.Warm {
	case 1: // seeded first-touch order
		r := simrt.NewRand(seed ^ rep.MapSeed)
		for _, i := range r.Perm(8) {
			a := common.HexToAddress(node.Account(i))
			state.GetBalance(a)
			state.GetNonce(a)
		}
	case 2: // execute the same block on another state object first and throw it away
		other, _ := mgr.GetAccountDBByHash(parent.StateTree)
		h := hdr
		core.SimExecuteBlock(other, &types.Block{Header: &h, Transactions: cp()}, "fullverify")
	case 3: // this process has executed a DIFFERENT block of the same height before (a competing proposal)
		other, _ := mgr.GetAccountDBByHash(parent.StateTree)
		h := hdr
		h.ProveValue = bigFrom(hdr.ProveValue.Int64() + 17)
		alt := make([]*types.Transaction, len(altTxs))
		for i, t := range altTxs {
			c := *t
			alt[i] = &c
		}
		core.SimExecuteBlock(other, &types.Block{Header: &h, Transactions: alt}, "fullverify")
	}
	h := hdr
	root, evicted, exec, receipts := core.SimExecuteBlock(state, &types.Block{Header: &h, Transactions: cp()}, "fullverify")
	o := c01Outcome{root: root.Hex()}
	for _, e := range evicted {
		o.evicted = append(o.evicted, e.Hex())
	}
	for _, t := range exec {
		o.executed = append(o.executed, t.Hash.Hex())
		o.kinds = append(o.kinds, t.Type)
	}
	for i, rc := range receipts {
		if i < len(exec) && exec[i].Type == types.TransactionTypeMinerApply {
			if rc.Status == types.ReceiptStatusSuccessful {
				o.applyOK++
			} else {
				o.applyFail++
			}
		}
		if i < len(exec) && exec[i].Type == types.TransactionTypeETHTX {
			if rc.Status == types.ReceiptStatusSuccessful {
				o.ethOK++
			} else {
				o.ethFail++
			}
		}
		b, _ := json.Marshal(rc)
		// Msg (the executor's result text) is not part of the JSON form: compare it as well
		o.receipts = append(o.receipts, string(b)+" msg="+rc.Msg)
	}
	return o
}

func c01Diff(a, b c01Outcome) (where, detail string) {
	if strings.Join(a.executed, ",") != strings.Join(b.executed, ",") {
		return "executed-list", fmt.Sprintf("%v vs %v", a.executed, b.executed)
	}
	if strings.Join(a.evicted, ",") != strings.Join(b.evicted, ",") {
		return "evicted-list", fmt.Sprintf("%v vs %v", a.evicted, b.evicted)
	}
	for i := range a.receipts {
		if i >= len(b.receipts) || a.receipts[i] != b.receipts[i] {
			var ra, rb types.Receipt
			split := func(s string) (string, string) {
				if k := strings.Index(s, " msg="); k >= 0 {
					return s[:k], s[k+5:]
				}
				return s, ""
			}
			ja, ma := split(a.receipts[i])
			jb, mb := split(safeIdx(b.receipts, i))
			json.Unmarshal([]byte(ja), &ra)
			json.Unmarshal([]byte(jb), &rb)
			ra.Msg, rb.Msg = ma, mb
			field := "receipt-other"
			switch {
			case ra.Status != rb.Status:
				field = "receipt-status"
			case ra.Result != rb.Result || ra.Msg != rb.Msg:
				field = "receipt-text"
			case ra.GasUsed != rb.GasUsed:
				field = "receipt-gas"
			case len(ra.Logs) != len(rb.Logs):
				field = "receipt-logs"
			}
			kind := int32(-1)
			if i < len(a.kinds) {
				kind = a.kinds[i]
			}
			return fmt.Sprintf("%s-txtype%d", field, kind), fmt.Sprintf("receipt %d: %s vs %s", i, a.receipts[i], safeIdx(b.receipts, i))
		}
	}
	if a.root != b.root {
		return "state-root", fmt.Sprintf("%s vs %s", a.root, b.root)
	}
	return "", ""
}

func safeIdx(s []string, i int) string {
	if i < len(s) {
		return s[i]
	}
	return "<none>"
}

func (c01) Exec(raw json.RawMessage, st *simrt.Stats, log *simrt.Log) *simrt.Violation {
	var p c01Plan
	if err := json.Unmarshal(raw, &p); err != nil {
		panic(runner.InfraError{Msg: "bad plan: " + err.Error()})
	}
	defer func() { simmap.Seed = 0; utility.SimClock = nil }()
	image, parent, contracts, baseNonce, setupNode, probe := c01Setup(&p)
	if probe != nil {
		p.Txs = append(append([]node.TxSpec{}, p.Txs...), *probe)
		st.Fault("code_replaced_at_fixed_address_in_history")
	}
	forks := node.Forks(p.Forks)
	multi := false
	kinds := map[string]int{}
	resolve := func(specs []node.TxSpec) []*types.Transaction {
		ethSeq := map[int]uint64{}
		var txs []*types.Transaction
		for _, s := range specs {
			if strings.HasPrefix(s.To, "#") {
				var k int
				fmt.Sscanf(s.To, "#%d", &k)
				s.To = contracts[k%len(contracts)]
			}
			for ti, tg := range s.Targets {
				if strings.HasPrefix(tg.A, "#") {
					var k int
					fmt.Sscanf(tg.A, "#%d", &k)
					s.Targets = append([]node.Target{}, s.Targets...)
					s.Targets[ti].A = contracts[k%len(contracts)]
				}
			}
			if len(s.Targets) > 1 {
				multi = true
			}
			kinds[s.K]++
			f := ((s.From % 8) + 8) % 8
			if s.Eth {
				want := int64(baseNonce[f]+ethSeq[f]) + int64(s.NDelta)
				if want < 0 {
					want = 0
				}
				s.Nonce = uint64(want)
				kinds["eth"+s.K]++
			}
			if (s.K == "create" || s.K == "call") && s.NDelta == 0 {
				ethSeq[f]++ // a contract transaction that runs bumps the sender's nonce
			}
			txs = append(txs, s.Build())
		}
		return txs
	}
	altTxs := resolve(p.Alt)
	multi, kinds = false, map[string]int{}
	txs := resolve(p.Txs)
	// the list the executor is given: in the node's own total order
	zone := time.FixedZone("sim", p.ZoneH*3600)
	hdr := types.BlockHeader{Height: parent.Height + 1 + p.Jump, PreHash: parent.Hash, PreTime: parent.CurTime, ProveValue: bigFrom(p.PV), TotalQN: parent.TotalQN + p.QN,
		CurTime: node.EpochTime.Add(time.Duration(p.TimeMs) * time.Millisecond).In(zone), Castor: common.FromHex(node.Castors[p.Castor%2]), RequestIds: map[string]uint64{}}
	hdr.GroupId = setupNode.Groups.GetGroupByHeight(0).Id // (no Boot here: the setup incarnation must stay alive for the long-running replica)
	st.Evaluations++
	// the long-running node: the incarnation that executed the whole setup history (its process-local
	// caches have seen every earlier block) executes the block first; replica 0 below is a cold boot
	hist := c01Exec(setupNode, parent, hdr, txs, altTxs, c01Replica{}, p.Seed)
	st.Fault("long_running_node_replica")
	log.Add("long-running node root=%s receipts=%d", hist.root[:10], len(hist.receipts))
	var first c01Outcome
	var live *node.Node
	for i, rep := range p.Replicas {
		st.Ops++
		var n *node.Node
		if rep.Warm == 0 || rep.Warm == 3 || live == nil {
			n = node.Boot(image.Clone(), forks, false)
			live = n
			if rep.Warm == 3 {
				// a fresh process whose only history is the competing block (a process that has already
				// executed THIS block would mask a per-height cache with the right content)
				st.Fault("warm_competing_block_same_height")
			} else {
				st.Fault("cold_boot_replica")
			}
		} else {
			n = live
			switch rep.Warm {
			case 1:
				st.Fault("warm_touch_order")
			case 2:
				st.Fault("warm_discarded_block")
			default:
				st.Fault("warm_competing_block_same_height")
			}
		}
		if rep.MapSeed != 0 {
			st.Fault("map_order_seed")
		}
		if rep.ClockS != 0 {
			st.Fault("clock_epoch_shift")
		}
		if rep.StepMs != 0 {
			st.Fault("clock_drift_per_call")
		}
		o := c01Exec(n, parent, hdr, txs, altTxs, rep, p.Seed)
		log.Add("replica %d map=%x warm=%d clock=%d step=%d root=%s receipts=%d evicted=%d", i, rep.MapSeed, rep.Warm, rep.ClockS, rep.StepMs, o.root[:10], len(o.receipts), len(o.evicted))
		if i == 0 {
			first = o
			if where, detail := c01Diff(first, hist); where != "" {
				return simrt.Violationf("C01", "replica-divergence", "long-running-node-"+where, 0, "replica 0 (cold boot from the parent's disk image) and the incarnation that executed the whole history before disagree: %s", detail)
			}
			st.ProbeN("miner_apply_ok", int64(o.applyOK))
			st.ProbeN("miner_apply_failed", int64(o.applyFail))
			if o.applyOK >= 3 {
				st.Probe("blocks_with_3_or_more_accepted_applies")
			}
			st.ProbeN("wrapped_eth_tx_ok", int64(o.ethOK))
			st.ProbeN("wrapped_eth_tx_failed", int64(o.ethFail))
			continue
		}
		if where, detail := c01Diff(first, o); where != "" {
			return simrt.Violationf("C01", "replica-divergence", where, i, "replica 0 (canonical map order, cold) and replica %d (map seed %x, warm %d, clock +%ds, drift %dms) disagree: %s", i, rep.MapSeed, rep.Warm, rep.ClockS, rep.StepMs, detail)
		}
	}
	// concurrent executions in one process: what a node does when it verifies a block while its own
	// casting goroutine (or a fork switch, or an RPC call) executes another - each on its own state
	// object, so every one of them must still produce replica 0's outcome
	if p.Conc > 0 {
		simmap.Seed = 0
		utility.SimClock = nil
		node.SetTime(node.EpochTime.Add(time.Duration(p.TimeMs) * time.Millisecond))
		node.Boot(image.Clone(), forks, false)
		mgr := &middleware.AccountDBManagerInstance
		outs := make([]c01Outcome, p.Conc)
		var names []string
		var tasks []func()
		for ti := 0; ti < p.Conc; ti++ {
			ti := ti
			state, err := mgr.GetAccountDBByHash(parent.StateTree)
			if err != nil {
				panic(runner.InfraError{Msg: "C01: parent state: " + err.Error()})
			}
			names = append(names, fmt.Sprintf("exec%d", ti))
			tasks = append(tasks, func() {
				h := hdr
				cpt := make([]*types.Transaction, len(txs))
				for i, t := range txs {
					c := *t
					cpt[i] = &c
				}
				root, evicted, exec, receipts := core.SimExecuteBlock(state, &types.Block{Header: &h, Transactions: cpt}, "fullverify")
				o := c01Outcome{root: root.Hex()}
				for _, e := range evicted {
					o.evicted = append(o.evicted, e.Hex())
				}
				for _, t := range exec {
					o.executed = append(o.executed, t.Hash.Hex())
					o.kinds = append(o.kinds, t.Type)
				}
				for _, rc := range receipts {
					b, _ := json.Marshal(rc)
					o.receipts = append(o.receipts, string(b)+" msg="+rc.Msg)
				}
				outs[ti] = o
			})
		}
		if len(altTxs) > 0 {
			other, _ := mgr.GetAccountDBByHash(parent.StateTree)
			names = append(names, "competing")
			tasks = append(tasks, func() {
				h := hdr
				h.ProveValue = bigFrom(hdr.ProveValue.Int64() + 17)
				alt := make([]*types.Transaction, len(altTxs))
				for i, t := range altTxs {
					c := *t
					alt[i] = &c
				}
				core.SimExecuteBlock(other, &types.Block{Header: &h, Transactions: alt}, "fullverify")
			})
		}
		res := simsched.Run(simsched.Options{Seed: p.ConcSeed, Policy: "random", MaxPreempt: -1, MaxSteps: 4000000}, names, tasks)
		st.Fault("concurrent_executions_in_one_process")
		st.ProbeN("task_switches", int64(res.Switches))
		if res.Panic != nil {
			return simrt.Violationf("C01", "host-panic", "concurrent-execution", len(p.Replicas), "%v", res.Panic)
		}
		if res.Deadlock {
			return simrt.Violationf("C01", "no-progress", "concurrent-execution", len(p.Replicas), "concurrent executions did not finish (deadlock)")
		}
		for ti, o := range outs {
			if where, detail := c01Diff(first, o); where != "" {
				return simrt.Violationf("C01", "replica-divergence", "concurrent-"+where, len(p.Replicas), "replica 0 (alone in its process) and execution %d of %d running concurrently in one process (schedule %x) disagree: %s", ti, p.Conc, p.ConcSeed, detail)
			}
		}
	}
	// protocol path: proposer casts through the pool, another incarnation verifies and adds
	simmap.Seed = p.Replicas[len(p.Replicas)-1].MapSeed
	node.SetTime(node.EpochTime.Add(time.Duration(p.TimeMs) * time.Millisecond))
	prop := node.Boot(image.Clone(), forks, false)
	var cp []*types.Transaction
	for _, t := range txs {
		c := *t
		cp = append(cp, &c)
	}
	if p.CastStep > 0 {
		// a slow proposer: its clock moves at every reading, so the casting time budget can run out at any
		// transaction; whatever it then proposes must still be a block the others accept
		base, calls := node.EpochTime.Add(time.Duration(p.TimeMs)*time.Millisecond), int64(0)
		utility.SimClock = func() time.Time {
			calls++
			return base.Add(time.Duration(calls*p.CastStep) * time.Millisecond).In(utility.SimZone())
		}
		st.Fault("proposer_clock_runs_during_cast")
	}
	blk, err := c01Cast(prop, node.BlockSpec{QN: p.QN, PV: p.PV, Castor: p.Castor, TimeMs: p.TimeMs, Skip: p.Jump, Txs: cp}, p.Seed)
	utility.SimClock = nil
	if err == nil && len(blk.Transactions) < len(cp) {
		st.Probe("cast_block_shorter_than_pool")
	}
	if err != nil {
		return simrt.Violationf("C01", "proposer-cannot-cast", "cast", len(p.Replicas), "%v", err)
	}
	wire := node.CloneBlock(blk)
	simmap.Seed = p.Replicas[1%len(p.Replicas)].MapSeed ^ 0x5555
	node.SetTime(node.EpochTime.Add(time.Duration(p.TimeMs+86400000) * time.Millisecond))
	ver := node.Boot(image.Clone(), forks, false)
	if res := ver.Chain.AddBlockOnChain(wire); res != types.AddBlockSucc {
		return simrt.Violationf("C01", "verifier-rejects-proposers-block", fmt.Sprintf("result%d", res), len(p.Replicas)+1, "a block cast by one incarnation (%d txs) was rejected by another incarnation with result %d (state/receipt/tx root mismatch)", len(blk.Transactions), res)
	}
	st.State(simrt.HashString(first.root))
	if len(txs) >= 2 || multi {
		st.Nontrivial(simrt.HashString(fmt.Sprintf("%v|%v", kinds, first.receipts)))
	}
	return nil
}

func bigFrom(v int64) *bigInt { return new(bigInt).SetInt64(v) }

func (c01) Shrink(raw json.RawMessage) []json.RawMessage {
	var p c01Plan
	json.Unmarshal(raw, &p)
	var out []json.RawMessage
	emit := func(q c01Plan) {
		b, _ := json.Marshal(q)
		out = append(out, b)
	}
	for chunk := len(p.Txs) / 2; chunk >= 1; chunk /= 2 {
		for s := 0; s+chunk <= len(p.Txs); s += chunk {
			q := p
			q.Txs = append(append([]node.TxSpec{}, p.Txs[:s]...), p.Txs[s+chunk:]...)
			emit(q)
		}
	}
	// keep replica 0 and one other
	if len(p.Replicas) > 2 {
		for i := 1; i < len(p.Replicas); i++ {
			q := p
			q.Replicas = []c01Replica{p.Replicas[0], p.Replicas[i]}
			emit(q)
		}
	}
	for i := range p.Replicas {
		if p.Replicas[i].Warm != 0 || p.Replicas[i].ClockS != 0 || p.Replicas[i].StepMs != 0 {
			q := p
			q.Replicas = append([]c01Replica{}, p.Replicas...)
			q.Replicas[i].Warm, q.Replicas[i].ClockS, q.Replicas[i].StepMs = 0, 0, 0
			emit(q)
		}
	}
	for i, t := range p.Txs {
		if len(t.Targets) > 1 {
			for j := range t.Targets {
				q := p
				q.Txs = append([]node.TxSpec{}, p.Txs...)
				q.Txs[i].Targets = append(append([]node.Target{}, t.Targets[:j]...), t.Targets[j+1:]...)
				emit(q)
			}
		}
	}
	if p.Miners > 0 {
		q := p
		q.Miners = 0
		emit(q)
	}
	return out
}

// RacePlan / RaceFrames: the race-detector stage (DESIGN.md 13.4) re-runs concurrent-execution plans
// in the build whose task hand-off is invisible to the detector.
func (c01) RacePlan(seed uint64, i int) json.RawMessage {
	var p c01Plan
	json.Unmarshal(c01{}.Gen(runner.PlanSeed(seed, "C01-race", i), "quick"), &p)
	r := simrt.NewRand(runner.PlanSeed(seed, "C01-race-sched", i))
	p.Conc, p.ConcSeed = 2+i%2, r.U64()
	p.Replicas = p.Replicas[:1]
	if p.Forks == string(node.ForksDevLike) {
		p.Forks = string(node.ForksLatestSync)
	}
	b, _ := json.Marshal(p)
	return b
}

func (c01) RaceFrames() []string {
	return []string{"/src/storage/account.", "/src/executor.", "/src/vm.", "/src/service.", "/src/core.", "/src/storage/trie.", "/src/common."}
}
