package harness

import (
	"encoding/hex"
	"encoding/json"
	"fmt"
	"strings"
	"time"

	"com.tuntun.rangers/node/src/common"
	"com.tuntun.rangers/node/src/storage/account"
	"com.tuntun.rangers/node/src/storage/rlp"
	"com.tuntun.rangers/node/src/storage/trie"
	"com.tuntun.rangers/node/src/zzverif/node"
	"com.tuntun.rangers/node/src/zzverif/runner"
	"com.tuntun.rangers/node/src/zzverif/simdisk"
	"com.tuntun.rangers/node/src/zzverif/simmap"
	"com.tuntun.rangers/node/src/zzverif/simrt"
)

// C03 — a committed state root is durable, complete and never invalidates older roots.
//
// Simulated system: the real AccountDB + NodeDatabase committing, exactly as
// blockChain.saveStates does (AccountDB.Commit(true) then TrieDB().Commit(root,false)),
// onto the simulated disk, which numbers every physical write. For each block of
// each history EVERY prefix of its physical writes is turned into a crash image
// (process death: completed writes survive, a batch is atomic) and opened cold.

type c03Mut struct {
	K string `json:"k"` // bal nonce data code del
	A int    `json:"a"`
	S int    `json:"s,omitempty"`
	N int    `json:"n,omitempty"` // size / value
}

type c03Plan struct {
	Seed   uint64     `json:"seed"`
	Blocks [][]c03Mut `json:"blocks"`
	// Alt[b] (optional): a sibling state built from the same parent as block b; both are committed to
	// the memory layer first and then flushed to disk, the sibling first when AltFirst[b]
	Alt      map[int][]c03Mut `json:"alt,omitempty"`
	AltFirst map[int]bool     `json:"alt_first,omitempty"`
	// WriteFault: in block B make the K-th physical write fail (0 = none)
	FaultBlock int `json:"fault_block,omitempty"`
	FaultWrite int `json:"fault_write,omitempty"`
	// ReadFault: while block ReadFaultBlock is being EXECUTED the ReadFaultN-th disk read fails once
	// (transient I/O error)
	ReadFaultBlock int `json:"rfault_block,omitempty"`
	ReadFaultN     int `json:"rfault_n,omitempty"`
}

type c03 struct{}

func init() { runner.Register(c03{}) }

func (c03) ID() string    { return "C03" }
func (c03) Level() string { return "fault_enumeration" }

func (c03) Budget(tier string) runner.Budget {
	if tier == "thorough" {
		return runner.Budget{Plans: 60000, PlansPerProc: 300, Wall: 12 * time.Minute}
	}
	return runner.Budget{Plans: 14000, PlansPerProc: 200, Wall: 45 * time.Second}
}

func (c03) Describe() runner.Description {
	return runner.Description{
		Rule:        "each history is 1..6 seeded blocks of balance/nonce/storage/code mutations (code blobs up to 120 KB; code set and set again inside a reverted snapshot; the same code set twice in one block, with and without an IntermediateRoot in between; slots emptied and rewritten inside a reverted snapshot; one-byte values; storage keys that are prefixes of one another; 24..140 slots of one account written at once, so that branch nodes with all sixteen children occur) (about half of the blocks write >100 KiB so that the commit is split over several batch writes; some write nothing new) committed as blockChain.saveStates does (in half of the histories after an IntermediateRoot, as the block executor leaves the state). evaluations = crash images: for every block and EVERY prefix k=0..N of its physical writes, the disk image (everything durable before + first k writes) is opened with a brand-new database and walked completely (account trie, every storage trie, every code blob): all earlier roots must resolve and read back every recorded value; the block's own root must do so whenever its top node is on disk, and always for k=N. A read-error variant makes one disk read fail while a later block executes: the commit may refuse, but if it reports success the root must be complete on disk. A write-error variant makes one physical write fail: Commit must report it and earlier roots stay intact; the same root is then committed again by the surviving process, and if that reports success the root must resolve from disk alone. exhaustive=true refers to the write prefixes of each generated history (the histories themselves are sampled). distinct_nontrivial = distinct (history, block, k) with 0<k<N, i.e. crash points strictly inside a multi-batch commit.",
		Assumptions: []string{"crash model = process death: completed physical writes (Put or whole batch) survive, nothing is torn or lost (the code never syncs; the properties speak of process death)", "the reference for every root is what the executing state answered right before its commit (checked against the committed root opened on the live database, and that against every cold image)"},
		Real:        []string{"storage/account (AccountDB.Commit, account objects)", "storage/trie (NodeDatabase.Commit, commit ordering, batches)", "storage/rlp"},
		Stub:        []string{"disk: simdisk.KV (write log, crash images, write faults)"},
		FaultKinds:  []string{"sibling_states_in_memory", "crash_after_write_k", "crash_inside_multibatch_commit", "disk_write_error", "commit_retry_after_write_error", "disk_read_error_during_execution"},
		Exhaustive:  true,
	}
}

var c03Addrs = []common.Address{
	common.HexToAddress("0xa111111111111111111111111111111111111111"),
	common.HexToAddress("0xa222222222222222222222222222222222222222"),
	common.HexToAddress("0xa333333333333333333333333333333333333333"),
	common.HexToAddress("0xa444444444444444444444444444444444444444"),
	common.HexToAddress("0xa455555555555555555555555555555555555555"),
}

const c03NSlots = 9

// slots 0..5: 32-byte keys; 6..8: short keys that are proper prefixes of one another (storage keys are
// arbitrary byte strings)
func c03Slot(i int) []byte {
	if i >= 6 {
		return []byte("abcd")[:i-4]
	}
	return common.BytesToHash([]byte{byte(i + 1), 0x77}).Bytes()
}

// c03WideKey: the i-th key of a "wide" write (enough keys to fill every child of the top branch nodes)
func c03WideKey(seed uint64, i int) []byte {
	return simrt.NewRand(seed ^ uint64(i+1)*0x9e3779b97f4a7c15).Bytes(32)
}

func (c03) Gen(seed uint64, tier string) json.RawMessage {
	r := simrt.NewRand(seed)
	p := c03Plan{Seed: seed}
	nb := r.Range(1, 4)
	if r.Chance(0.2) {
		nb = r.Range(5, 6)
	}
	for b := 0; b < nb; b++ {
		var blk []c03Mut
		big := r.Chance(0.5)
		n := r.Range(0, 8)
		if r.Chance(0.1) {
			n = 0 // a block that changes nothing
		}
		for i := 0; i < n; i++ {
			m := c03Mut{A: r.Intn(len(c03Addrs)), S: r.Intn(c03NSlots)}
			switch r.Intn(6) {
			case 0:
				m.K, m.N = "bal", r.Range(0, 1000000)
			case 1:
				m.K, m.N = "nonce", r.Range(1, 50)
			case 2, 3:
				m.K = "data"
				m.N = r.Range(1, 300)
				if big {
					m.N = r.Range(20000, 60000)
				}
			case 4:
				m.K = "code"
				m.N = r.Range(1, 500)
				if big {
					m.N = r.Range(10000, 40000)
					if r.Chance(0.3) {
						m.N = r.Range(65000, 120000) // around and above 64 KiB (the VM allows 240 KiB of code)
					}
				}
				if r.Chance(0.2) {
					m.K = "recode" // code set, then set again inside a snapshot that is reverted (a failed redeploy)
				}
			default:
				m.K = "del"
				if r.Chance(0.3) {
					m.K, m.N = "redel", r.Range(1, 40) // emptied, then rewritten inside a snapshot that is reverted
				}
			}
			if m.K == "data" && r.Chance(0.15) {
				m.K, m.N = "tiny", r.Intn(256) // a one-byte value
			}
			if m.K == "data" && !big && r.Chance(0.12) {
				m.K, m.N = "wide", r.Range(24, 140) // that many slots of one account at once
			}
			blk = append(blk, m)
		}
		p.Blocks = append(p.Blocks, blk)
	}
	if r.Chance(0.3) {
		p.FaultBlock = r.Range(1, nb)
		p.FaultWrite = r.Range(1, 3)
	} else if nb >= 2 && r.Chance(0.2) {
		p.ReadFaultBlock = r.Range(2, nb) // a later block: it reads what earlier blocks stored
		p.ReadFaultN = r.Range(1, 6)
	} else if r.Chance(0.5) {
		p.Alt, p.AltFirst = map[int][]c03Mut{}, map[int]bool{}
		for b := 0; b < nb; b++ {
			if r.Chance(0.4) {
				var alt []c03Mut
				for i := r.Range(1, 5); i > 0; i-- {
					m := c03Mut{A: r.Intn(len(c03Addrs)), S: r.Intn(c03NSlots), K: []string{"bal", "nonce", "data", "data", "code"}[r.Intn(5)], N: r.Range(1, 400)}
					if r.Chance(0.3) && (m.K == "data" || m.K == "code") {
						m.N = r.Range(20000, 50000)
					}
					alt = append(alt, m)
				}
				p.Alt[b] = alt
				p.AltFirst[b] = r.Chance(0.5)
			}
		}
	}
	b, _ := json.Marshal(p)
	return b
}

func c03Bytes(seed uint64, n int) []byte {
	return simrt.NewRand(seed).Bytes(n)
}

func c03Apply(st *account.AccountDB, m c03Mut, seed uint64) {
	a := c03Addrs[m.A%len(c03Addrs)]
	switch m.K {
	case "bal":
		st.SetBalance(a, new(bigInt).SetInt64(int64(m.N)))
	case "nonce":
		st.SetNonce(a, uint64(m.N))
	case "data":
		st.SetData(a, c03Slot(m.S), c03Bytes(seed, m.N))
	case "code":
		st.SetCode(a, c03Bytes(seed^0x55, m.N))
		switch m.N % 4 { // the same code set a second time before the commit (an idempotent redeploy / re-executed transaction): still has to be written
		case 1:
			st.SetCode(a, c03Bytes(seed^0x55, m.N))
		case 3:
			st.IntermediateRoot(false)
			st.SetCode(a, c03Bytes(seed^0x55, m.N))
		}
	case "recode":
		st.SetCode(a, c03Bytes(seed^0x55, m.N))
		id := st.Snapshot()
		st.SetCode(a, c03Bytes(seed^0x77, m.N/2+1))
		st.SetData(a, c03Slot(m.S), c03Bytes(seed^0x78, 9))
		st.RevertToSnapshot(id)
	case "del":
		st.RemoveData(a, c03Slot(m.S))
	case "redel":
		st.SetData(a, c03Slot(m.S), nil)
		id := st.Snapshot()
		st.SetData(a, c03Slot(m.S), c03Bytes(seed^0x79, m.N))
		st.RevertToSnapshot(id)
	case "tiny":
		st.SetData(a, c03Slot(m.S), []byte{byte(m.N)})
	case "wide":
		for i := 0; i < m.N; i++ {
			st.SetData(a, c03WideKey(seed, i), c03Bytes(seed^uint64(i), 33+i%40))
		}
	}
}

// c03Observe reads everything the statement names through the exported accessors.
func c03Observe(st *account.AccountDB) []string {
	var o []string
	for i, a := range c03Addrs {
		o = append(o, fmt.Sprintf("a%d.nonce=%d", i, st.GetNonce(a)))
		o = append(o, fmt.Sprintf("a%d.balance=%s", i, st.GetBalance(a).String()))
		code := st.GetCode(a)
		o = append(o, fmt.Sprintf("a%d.code=%d:%016x", i, len(code), simrt.HashBytes(code)))
		o = append(o, fmt.Sprintf("a%d.codehash=%x", i, st.GetCodeHash(a).Bytes()))
		for j := 0; j < c03NSlots; j++ {
			d := st.GetData(a, c03Slot(j))
			o = append(o, fmt.Sprintf("a%d.slot%d=%d:%016x", i, j, len(d), simrt.HashBytes(d)))
		}
		if it := st.DataIterator(a, nil); it != nil {
			n := 0
			for it.Next() {
				n++
			}
			o = append(o, fmt.Sprintf("a%d.iter=%d err=%v", i, n, it.Err != nil))
		} else {
			o = append(o, fmt.Sprintf("a%d.iter=none", i))
		}
	}
	return o
}

var c03EmptyRoot = common.HexToHash("56e81f171bcc55a6ff8345e692c0f86e5b48e01b996cadc001622fb5e363b421")

// c03Walk resolves every node reachable from root on a cold database: account trie,
// every storage trie, every code blob. Returns "" or a description of what is missing.
func c03Walk(kv *simdisk.KV, root common.Hash) string {
	adb := account.NewDatabase(kv)
	tr, err := adb.OpenTrie(root)
	if err != nil {
		return "account-trie-root: " + err.Error()
	}
	it := tr.NodeIterator(nil)
	for it.Next(true) {
		if !it.Leaf() {
			continue
		}
		var acc account.Account
		if err := rlp.DecodeBytes(it.LeafBlob(), &acc); err != nil {
			return "account-record: " + err.Error()
		}
		if acc.Root != (common.Hash{}) && acc.Root != c03EmptyRoot {
			st, err := adb.OpenStorageTrie(common.Hash{}, acc.Root)
			if err != nil {
				return "storage-trie-root: " + err.Error()
			}
			sit := st.NodeIterator(nil)
			for sit.Next(true) {
			}
			if sit.Error() != nil {
				return "storage-trie-node: " + sit.Error().Error()
			}
		}
		ch := common.BytesToHash(acc.NFTSetDefinitionHash)
		if len(acc.NFTSetDefinitionHash) > 0 && ch != emptyCodeHashC03 {
			blob, err := adb.TrieDB().Node(ch)
			if err != nil || len(blob) == 0 {
				return fmt.Sprintf("code-blob: %v", err)
			}
		}
	}
	if it.Error() != nil {
		return "account-trie-node: " + it.Error().Error()
	}
	return ""
}

func c03Where(s string) string {
	if i := strings.Index(s, ":"); i > 0 {
		return s[:i]
	}
	return s
}

func (c03) Exec(raw json.RawMessage, stt *simrt.Stats, log *simrt.Log) *simrt.Violation {
	node.InitProcess()
	common.SetBlockHeight(5)
	var p c03Plan
	if err := json.Unmarshal(raw, &p); err != nil {
		panic(runner.InfraError{Msg: "bad plan: " + err.Error()})
	}
	simmap.Seed = simrt.Mix(p.Seed, 0x6d6170) | 1 // seeded map iteration order (instrumented build)
	viol := func(ev int, clause, where, f string, a ...interface{}) *simrt.Violation {
		return simrt.Violationf("C03", clause, where, ev, f, a...)
	}
	kv := simdisk.NewKV()
	adb := account.NewDatabase(kv)
	st, err := account.NewAccountDB(common.Hash{}, adb)
	if err != nil {
		panic(runner.InfraError{Msg: err.Error()})
	}
	// genesis-like prelude (block 0): token contract + binding, committed
	st.SetCode(c04TokenContract, []byte{0x60, 0x00, 0x60, 0x00, 0xfd})
	st.SetNonce(c04TokenContract, 1)
	st.AddERC20Binding(common.BLANCE_NAME, c04TokenContract, 3, 18)
	root, err := st.Commit(true)
	if err == nil {
		err = adb.TrieDB().Commit(root, false)
	}
	if err != nil {
		return viol(-1, "commit-error", "prelude", "%v", err)
	}
	type durable struct {
		root common.Hash
		obs  []string
	}
	st, _ = account.NewAccountDB(root, adb)
	roots := []durable{{root, c03Observe(st)}}
	st, _ = account.NewAccountDB(root, adb)

	checkRoot := func(ev int, img *simdisk.KV, d durable, clause string) *simrt.Violation {
		if miss := c03Walk(img, d.root); miss != "" {
			return viol(ev, clause, c03Where(miss), "root %x not fully resolvable on the crash image: %s", d.root.Bytes(), miss)
		}
		cst, err := account.NewAccountDB(d.root, account.NewDatabase(img))
		if err != nil {
			return viol(ev, clause, "open", "root %x: %v", d.root.Bytes(), err)
		}
		got := c03Observe(cst)
		for i := range got {
			if got[i] != d.obs[i] {
				_, f := c04Field(got[i])
				return viol(ev, clause, "value-"+f, "root %x after cold reopen: %s, before: %s", d.root.Bytes(), got[i], d.obs[i])
			}
		}
		if cst.Error() != nil {
			return viol(ev, clause, "db-error", "root %x: %v", d.root.Bytes(), cst.Error())
		}
		return nil
	}

	parentRoot := root
	for b, blk := range p.Blocks {
		stt.Ops++
		readFaulted := false
		if p.ReadFaultBlock == b+1 && p.ReadFaultN > 0 {
			seen := 0
			kv.ReadFault = func(key []byte) bool {
				seen++
				if seen == p.ReadFaultN {
					readFaulted = true
					return true
				}
				return false
			}
		}
		for i, m := range blk {
			c03Apply(st, m, p.Seed+uint64(b*100+i))
		}
		if readFaulted {
			stt.Fault("disk_read_error_during_execution")
		}
		base := kv.Snapshot()
		logStart := len(kv.Log)
		faulted := false
		if p.FaultBlock == b+1 && p.FaultWrite > 0 {
			kv.ArmWriteFault(p.FaultWrite)
		}
		var stAlt *account.AccountDB
		var altRoot common.Hash
		if alt, ok := p.Alt[b]; ok && p.FaultBlock != b+1 {
			stAlt, _ = account.NewAccountDB(roots[len(roots)-1].root, adb)
			if parentRoot != (common.Hash{}) {
				stAlt, _ = account.NewAccountDB(parentRoot, adb)
			}
			for i, m := range alt {
				c03Apply(stAlt, m, p.Seed+uint64(b*100+50+i))
			}
		}
		// what the executing state answers before the commit (the statement's reference); the iteration
		// count is left out: a data iterator walks committed storage only
		pre := c03Observe(st)
		if p.Seed&2 == 0 {
			// as the block executor does: the root is computed (IntermediateRoot) when execution ends, the
			// commit follows when the block is saved
			st.IntermediateRoot(true)
		}
		newRoot, err := st.Commit(true)
		if err == nil && stAlt != nil {
			altRoot, err = stAlt.Commit(true) // both states sit in the memory layer before either is flushed
			stt.Fault("sibling_states_in_memory")
		}
		if err == nil {
			if stAlt != nil && p.AltFirst[b] {
				err = adb.TrieDB().Commit(altRoot, false)
				if err == nil {
					err = adb.TrieDB().Commit(newRoot, false)
				}
			} else {
				err = adb.TrieDB().Commit(newRoot, false)
				if err == nil && stAlt != nil {
					err = adb.TrieDB().Commit(altRoot, false)
				}
			}
		}
		if kv.WriteFaults > 0 && p.FaultBlock == b+1 {
			faulted = true
		}
		kv.FailWriteAt = 0
		log.Add("block %d muts=%d writes=%d root=%x err=%v", b, len(blk), len(kv.Log)-logStart, newRoot.Bytes()[:4], err)
		kv.ReadFault = nil
		if readFaulted {
			// the executing state met an I/O error: it may refuse to commit (then the history ends here, older
			// roots intact); if the commit REPORTS SUCCESS the root must be complete on disk like any other
			if err == nil {
				cold := simdisk.Image(kv.Snapshot(), nil, 0)
				if miss := c03Walk(cold, newRoot); miss != "" {
					return viol(b, "acknowledged-root-not-durable", "after-read-error-"+c03Where(miss), "block %d met a disk read error while it executed, its commit reported success for root %x, but the root is not resolvable from disk: %s", b, newRoot.Bytes(), miss)
				}
				stt.Probe("commit_succeeded_after_read_error")
			} else {
				stt.Probe("commit_refused_after_read_error")
			}
			for _, d := range roots {
				if v := checkRoot(b, simdisk.Image(kv.Snapshot(), nil, 0), d, "older-root-broken"); v != nil {
					return v
				}
			}
			break
		}
		if faulted {
			stt.Fault("disk_write_error")
			if err == nil {
				return viol(b, "write-error-not-reported", "commit", "a physical write failed during the commit of block %d but Commit reported success", b)
			}
		} else if err != nil {
			return viol(b, "commit-error", "commit", "block %d: %v", b, err)
		}
		writes := kv.Log[logStart:]
		n := len(writes)
		// every prefix of this block's physical writes is a crash image
		for k := 0; k <= n; k++ {
			img := simdisk.Image(base, writes, k)
			stt.Evaluations++
			stt.Fault("crash_after_write_k")
			if k > 0 && k < n {
				stt.Fault("crash_inside_multibatch_commit")
				stt.Nontrivial(simrt.Mix(simrt.Mix(p.Seed, uint64(b)), uint64(k)))
			}
			for _, d := range roots {
				if v := checkRoot(b, img, d, "older-root-broken"); v != nil {
					v.Detail += fmt.Sprintf(" (crash after write %d of %d of block %d)", k, n, b)
					return v
				}
			}
			if faulted {
				continue
			}
			if stAlt != nil {
				atop, _ := img.Has(altRoot.Bytes())
				if atop || k == n {
					clause := "root-present-but-incomplete"
					if k == n {
						clause = "acknowledged-root-not-durable"
					}
					if miss := c03Walk(img, altRoot); miss != "" {
						return viol(b, clause, "sibling-"+c03Where(miss), "block %d sibling root %x, crash after write %d of %d: %s", b, altRoot.Bytes(), k, n, miss)
					}
				}
			}
			top, _ := img.Has(newRoot.Bytes())
			if top || k == n {
				clause := "root-present-but-incomplete"
				if k == n {
					clause = "acknowledged-root-not-durable"
				}
				if miss := c03Walk(img, newRoot); miss != "" {
					return viol(b, clause, c03Where(miss), "block %d root %x, crash after write %d of %d: %s", b, newRoot.Bytes(), k, n, miss)
				}
			}
		}
		if faulted {
			// the process survives a failed write (transient I/O error) and commits the same root again,
			// as a node retrying the block does: if THAT commit reports success the root must be on disk
			if newRoot != (common.Hash{}) {
				stt.Fault("commit_retry_after_write_error")
				if rerr := adb.TrieDB().Commit(newRoot, false); rerr == nil {
					if miss := c03Walk(simdisk.Image(kv.Snapshot(), nil, 0), newRoot); miss != "" {
						return viol(b, "acknowledged-root-not-durable", "retry-after-write-error-"+c03Where(miss), "block %d root %x: the commit repeated after a failed physical write reported success, but the root cannot be resolved from disk: %s", b, newRoot.Bytes(), miss)
					}
				}
			}
			// the failed commit leaves the in-memory objects in an unspecified state: stop the history here
			break
		}
		// reference readings for the new root, taken on the live (un-crashed) database, then cold
		live, err := account.NewAccountDB(newRoot, adb)
		if err != nil {
			return viol(b, "acknowledged-root-not-durable", "open-live", "block %d root %x: %v", b, newRoot.Bytes(), err)
		}
		d := durable{newRoot, c03Observe(live)}
		for i := range pre {
			// an account object that is still empty at the commit is not stored: its code hash reads as the
			// hash of empty code before and as zero (no account) afterwards - the same "no code"
			emptyObj := strings.HasSuffix(pre[i], ".codehash=a7ffc6f8bf1ed76651c14756a061d662f580ff4de43b49fa82d80a4b80f8434a") && strings.HasSuffix(d.obs[i], ".codehash=0000000000000000000000000000000000000000000000000000000000000000")
			if pre[i] != d.obs[i] && !strings.Contains(pre[i], ".iter=") && !emptyObj {
				_, f := c04Field(pre[i])
				return viol(b, "value-differs-from-before-commit", "value-"+f, "block %d root %x: read before the commit: %s, read from the committed root: %s", b, newRoot.Bytes(), pre[i], d.obs[i])
			}
		}
		if v := checkRoot(b, simdisk.Image(kv.Snapshot(), nil, 0), d, "acknowledged-root-not-durable"); v != nil {
			return v
		}
		roots = append(roots, d)
		if stAlt != nil {
			liveAlt, err := account.NewAccountDB(altRoot, adb)
			if err != nil {
				return viol(b, "acknowledged-root-not-durable", "open-live-sibling", "block %d sibling root %x: %v", b, altRoot.Bytes(), err)
			}
			da := durable{altRoot, c03Observe(liveAlt)}
			if v := checkRoot(b, simdisk.Image(kv.Snapshot(), nil, 0), da, "acknowledged-root-not-durable"); v != nil {
				return v
			}
			roots = append(roots, da)
		}
		parentRoot = newRoot
		stt.State(simrt.HashString(strings.Join(d.obs, ";")))
		// next block: a new AccountDB at the committed root, as block execution opens one per block (an
		// AccountDB object that has been committed only serves reads in the node: its account objects do
		// not mark themselves dirty again, so writes made through it afterwards would never be committed)
		st, _ = account.NewAccountDB(newRoot, adb)
	}
	return nil
}

func (c03) Shrink(raw json.RawMessage) []json.RawMessage {
	var p c03Plan
	json.Unmarshal(raw, &p)
	var out []json.RawMessage
	emit := func(q c03Plan) {
		b, _ := json.Marshal(q)
		out = append(out, b)
	}
	for i := range p.Blocks {
		if p.FaultBlock != 0 && i+1 <= p.FaultBlock {
			continue
		}
		q := p
		q.Blocks = append(append([][]c03Mut{}, p.Blocks[:i]...), p.Blocks[i+1:]...)
		emit(q)
	}
	for i, blk := range p.Blocks {
		for j := range blk {
			q := p
			q.Blocks = append([][]c03Mut{}, p.Blocks...)
			q.Blocks[i] = append(append([]c03Mut{}, blk[:j]...), blk[j+1:]...)
			emit(q)
		}
	}
	for i, blk := range p.Blocks {
		for j, m := range blk {
			if m.N > 100 && (m.K == "data" || m.K == "code" || m.K == "recode") {
				q := p
				q.Blocks = append([][]c03Mut{}, p.Blocks...)
				q.Blocks[i] = append([]c03Mut{}, blk...)
				q.Blocks[i][j].N = m.N / 2
				emit(q)
			}
		}
	}
	if p.FaultBlock != 0 {
		q := p
		q.FaultBlock, q.FaultWrite = 0, 0
		emit(q)
	}
	return out
}

var _ = hex.EncodeToString
var _ = trie.NewDatabase
