package harness

import (
	"bytes"
	ethcrypto "com.tuntun.rangers/node/src/eth_crypto"
	"com.tuntun.rangers/node/src/utility"
	"com.tuntun.rangers/node/src/zzverif/evmasm"
	"encoding/hex"
	"encoding/json"
	"fmt"
	"math/big"
	"sort"
	"strings"
	"time"

	"com.tuntun.rangers/node/src/common"
	"com.tuntun.rangers/node/src/middleware"
	"com.tuntun.rangers/node/src/middleware/types"
	"com.tuntun.rangers/node/src/service"
	"com.tuntun.rangers/node/src/storage/account"
	"com.tuntun.rangers/node/src/zzverif/node"
	"com.tuntun.rangers/node/src/zzverif/runner"
	"com.tuntun.rangers/node/src/zzverif/simdisk"
	"com.tuntun.rangers/node/src/zzverif/simmap"
	"com.tuntun.rangers/node/src/zzverif/simrt"
)

// C06 — native token is conserved by every transaction; balances never go negative.
//
// Simulated system: booted real node; every transaction is executed by the real
// block executor (its snapshot / revert / gas-fee-after-revert logic is what is
// judged), one transaction per block in most plans, on successive committed states,
// at plan-chosen heights (escrow release), under seeded map order and gas
// starvation at plan-chosen limits. Invariant monitor over a closed address universe.

type c06Block struct {
	Jump int           `json:"jump,omitempty"`
	Txs  []node.TxSpec `json:"txs"`
}

type c06Plan struct {
	Seed   uint64     `json:"seed"`
	Forks  string     `json:"forks"`
	Blocks []c06Block `json:"blocks"`
	// StakeOps (stake-opcode plans): a contract that is the account of a registered miner executes the
	// node's STAKE / UNSTAKE / UNSTAKEALL opcodes, one per block
	StakeOps []c06StakeOp `json:"stake_ops,omitempty"`
}

type c06StakeOp struct {
	Op  string `json:"op"`            // stake unstake unstakeall release
	Wei string `json:"wei,omitempty"` // the opcode's amount operand
}

type c06 struct{}

func init() { runner.Register(c06{}) }

func (c06) ID() string    { return "C06" }
func (c06) Level() string { return "exploration" }

func (c06) Budget(tier string) runner.Budget {
	if tier == "thorough" {
		return runner.Budget{Plans: 30000, PlansPerProc: 15, Wall: 14 * time.Minute}
	}
	return runner.Budget{Plans: 8000, PlansPerProc: 30, Wall: 45 * time.Second}
}

func (c06) Describe() runner.Description {
	return runner.Description{
		Rule:        "each plan: 3..16 blocks, one transaction per block in ~80% of blocks (so the per-transaction statement is judged), value-heavy mix: multi-target transfers that fail part-way, zero/fractional/>18-decimal/negative/huge amounts (negative also as the transfer value of contract creations and calls), fee with insufficient balance, contract create with endowment (succeeding and failing; native and wrapped-Ethereum type 188 form), calls with value into programs that forward value, AUTHCALLs with value through a contract that holds an externally owned account's authorisation (sponsor = origin, often the poor account), revert, burn all gas after moving value, self-destruct to the caller / to themselves, gas limits at and below the intrinsic cost (gas starvation) and declared limits whose fee does not fit 64 bits, miner apply/add-stake/refund (stake lock and escrow), heights jumping to escrow release heights. After every block over the closed universe U (harness accounts, fee account, every contract ever created, miner accounts, escrow beneficiaries): sum(after) - sum(before) = + escrow released at this height (read from the escrow entries before the block) - stake locked by accepted apply/add-stake - balance of a contract that self-destructed naming itself; every balance in [0, 2^256); a failed transaction leaves the sum unchanged; an accepted stake refund moves exactly what leaves the miner's recorded stake into the escrow of its release height. Stake-opcode plans (6%): a contract that is the account of a registered validator executes STAKE / UNSTAKE / UNSTAKEALL with seeded operands (whole tokens, fractions, 1 wei, amounts that dismiss the miner), one per block, with jumps to the release heights: balances + recorded stake + escrow of the release heights must stay constant. distinct_nontrivial = distinct (tx kind, status, sum-delta sign) sequences with at least one failed value-moving transaction.",
		Assumptions: []string{"the address universe is closed under the generated transactions (targets, beneficiaries and created contracts are added as they appear)", "block rewards are scheduled into per-height escrow and only enter balances when released; the released amount is read from the escrow, not recomputed"},
		Real:        []string{"core/vmexecutor", "executor (operator, contract, miner)", "vm (EVM: CALL/CREATE/SELFDESTRUCT with value)", "service (ChangeAssets, fee processing, miner/refund/reward managers)", "storage/account balances in the bound token contract"},
		Stub:        []string{"ConsensusHelper", "network", "NTP clock"},
		FaultKinds:  []string{"gas_starvation", "map_order_seed", "height_jump_to_escrow_release", "failed_tx", "authcall_with_value", "stake_opcode_stake", "stake_opcode_unstake", "stake_opcode_unstakeall"},
	}
}

func c06GenTx(r *simrt.Rand, i int) node.TxSpec {
	s := node.TxSpec{From: r.Intn(8), Salt: fmt.Sprintf("v%d", i)}
	switch x := r.Intn(100); {
	case x < 35:
		s.K = "xfer"
		n := r.Range(1, 4)
		for j := 0; j < n; j++ {
			a := node.Account(r.Intn(8))
			if r.Chance(0.15) {
				a = node.Account(s.From)
			}
			v := c01Amounts[r.Intn(len(c01Amounts))]
			if r.Chance(0.6) {
				v = fmt.Sprintf("%d", r.Range(1, 7000))
			}
			s.Targets = append(s.Targets, node.Target{A: a, V: v})
		}
	case x < 50:
		s.K = "create"
		s.Prog = r.Intn(8)
		s.Value = []string{"0", "1", "3.5", "100000000000", "0.000000000000000001"}[r.Intn(5)]
		if r.Chance(0.06) {
			s.Value = "-1" // a negative transfer value in the transaction's JSON payload
		}
		s.Gas = []uint64{0, 60000000, 1590000, 1700000, 2500000, 8000000}[r.Intn(6)]
		s.Eth = r.Chance(0.35)
	case x < 56:
		// AUTHCALL with value: a contract acts for an externally owned account; the SPONSOR (the transaction's
		// origin, often the poor account) pays the value
		s.K = "authcall"
		s.From = []int{7, 7, 0, 5, 6}[r.Intn(5)]
		s.Value = []string{"0.000000000000000003", "5", "0.002", "100000000000", "0"}[r.Intn(5)]
		s.Acct = r.Intn(8) // recipient
		s.Gas = []uint64{0, 2000000}[r.Intn(2)]
		if s.From == 7 {
			s.Gas = 2000000
		}
	case x < 80:
		s.K = "call"
		s.To = fmt.Sprintf("#%d", r.Intn(6))
		s.Value = []string{"0", "1", "2.5", "7000", "100000000000", "0.000000000000000001"}[r.Intn(6)]
		if r.Chance(0.06) {
			s.Value = []string{"-1", "-0.25"}[r.Intn(2)]
		}
		s.Gas = []uint64{0, 629999, 630000, 640000, 700000, 1200000, 6000000}[r.Intn(7)]
		if r.Chance(0.08) {
			// a declared gas limit whose fee (limit x price) does not fit 64 bits, from an account that cannot pay it
			s.Gas = []uint64{18446744074, 18446744073709551615, 1 << 63, 36893488148}[r.Intn(4)]
			if r.Chance(0.7) {
				s.From = 7
				s.Value = "0"
			}
		}
		s.Eth = r.Chance(0.35)
		if s.Eth && r.Chance(0.15) {
			s.NDelta = []int{-1, 1}[r.Intn(2)]
		}
	case x < 82:
		s.K = "node"
		s.From = 4 + r.Intn(4)
	case x < 88:
		s.K = "apply"
		s.From = 4 + r.Intn(4)
		s.Miner = s.From - 4 // account k applies for miner k (most later add-stake/refund then hit a registered miner)
		if r.Chance(0.2) {
			s.Miner = r.Intn(4)
		}
		s.MType = byte(r.Intn(2))
		s.Stake = []uint64{400, 500, 2000, 100, 100000}[r.Intn(5)]
	case x < 93:
		s.K = "addstake"
		s.From = 4 + r.Intn(4)
		s.Miner = s.From - 4
		if r.Chance(0.3) {
			s.Miner = r.Intn(4)
		}
		s.Stake = uint64([]int{1, 50, 400, 100000}[r.Intn(4)])
	default:
		s.K = "refund"
		s.From = 4 + r.Intn(4)
		s.Miner = s.From - 4
		if r.Chance(0.3) {
			s.Miner = r.Intn(4)
		}
		s.Amount = []string{"1", "100", "400", "18446744073709551615"}[r.Intn(4)]
	}
	return s
}

func (c06) Gen(seed uint64, tier string) json.RawMessage {
	r := simrt.NewRand(seed)
	p := c06Plan{Seed: seed, Forks: string(node.ForksLatestSync)}
	if r.Chance(0.25) {
		p.Forks = string(node.ForksDevLike)
	}
	if r.Chance(0.06) {
		p.Forks = string(node.ForksLatestSync)
		amounts := []string{"5000000000000000000", "1000000000000000000", "1500000000000000000", "900000000000000000", "1", "250000000000000000000", "100000000000000000000", "0"}
		for i, n := 0, r.Range(1, 4); i < n; i++ {
			op := c06StakeOp{Op: []string{"stake", "unstake", "unstake", "unstake", "unstakeall"}[r.Intn(5)], Wei: amounts[r.Intn(len(amounts))]}
			p.StakeOps = append(p.StakeOps, op)
			if r.Chance(0.3) {
				p.StakeOps = append(p.StakeOps, c06StakeOp{Op: "release"})
			}
		}
		b, _ := json.Marshal(p)
		return b
	}
	nb := r.Range(3, 9)
	if r.Chance(0.3) {
		nb = r.Range(10, 16)
	}
	k := 0
	for b := 0; b < nb; b++ {
		blk := c06Block{}
		if r.Chance(0.12) {
			blk.Jump = r.Range(1, 2)
		}
		n := 1
		if r.Chance(0.2) {
			n = r.Range(2, 4)
		}
		if r.Chance(0.12) {
			// a contract transaction that really runs, followed in the same block by one from the poor account
			// whose gas limit is below the intrinsic cost (it fails before the EVM starts)
			blk.Txs = append(blk.Txs, node.TxSpec{K: "call", From: r.Intn(4), To: fmt.Sprintf("#%d", r.Intn(3)), Gas: 6000000, Value: "0", Salt: fmt.Sprintf("v%d", k)})
			k++
			blk.Txs = append(blk.Txs, node.TxSpec{K: []string{"call", "create"}[r.Intn(2)], From: 7, To: fmt.Sprintf("#%d", r.Intn(6)), Gas: uint64(r.Range(1000, 40000)), Value: "0", Prog: r.Intn(8), Salt: fmt.Sprintf("v%d", k)})
			k++
			n = 0
		}
		for j := 0; j < n; j++ {
			blk.Txs = append(blk.Txs, c06GenTx(r, k))
			k++
		}
		// an AUTHCALL transaction stands alone in its block, so that what it does to the sum is judged (and
		// classified) per transaction
		for _, t := range blk.Txs {
			if (t.K == "authcall" || ((t.K == "call" || t.K == "create") && strings.HasPrefix(t.Value, "-"))) && len(blk.Txs) > 1 {
				blk.Txs = []node.TxSpec{t}
				break
			}
		}
		p.Blocks = append(p.Blocks, blk)
	}
	b, _ := json.Marshal(p)
	return b
}

// c06StakeOps: contract S is the account of a registered validator (stake 600) and executes one stake
// opcode per block with a seeded amount operand. Value lives in balances, in the miner's recorded stake
// and in the escrow of the release heights: their total must not change ("miner stake and stake refunds
// decrease and increase the sum by exactly the amount involved").
func c06StakeOps(p *c06Plan, ec *execChain, st *simrt.Stats, log *simrt.Log) *simrt.Violation {
	viol := func(ev int, clause, where, f string, a ...interface{}) *simrt.Violation {
		return simrt.Violationf("C06", clause, where, ev, f, a...)
	}
	saddr := common.HexToAddress("0x5a11ed0000000000000000000000000000000777")
	common.SetBlockHeight(ec.height)
	s0 := ec.state()
	s0.SetCode(saddr, []byte{0x00})
	s0.SetNonce(saddr, 1)
	s0.AddBalance(saddr, tokens(1000))
	commitState := func(s *account.AccountDB) {
		root, err := s.Commit(true)
		if err == nil {
			err = middleware.AccountDBManagerInstance.GetTrieDB().Commit(root, false)
		}
		if err != nil {
			panic(runner.InfraError{Msg: "c06 stake-op deploy: " + err.Error()})
		}
		ec.root = root
	}
	commitState(s0)
	apply := node.TxSpec{K: "apply", From: 0, Miner: 21, MType: 0, Stake: 600, AcctHex: saddr.GetHexString(), Salt: fmt.Sprintf("c06so-%d", p.Seed)}.Build()
	rcs, _, _, _ := ec.execBlock(ec.height+1, []*types.Transaction{apply}, true)
	if len(rcs) != 1 || rcs[0].Status != types.ReceiptStatusSuccessful {
		st.Probe("stake_opcode_setup_refused")
		return nil
	}
	mid := node.MinerID(21)
	universe := []common.Address{saddr, common.FeeAccount}
	for i := 0; i < 8; i++ {
		universe = append(universe, common.HexToAddress(node.Account(i)))
	}
	heights := map[uint64]bool{}
	total := func() *big.Int {
		s := ec.state()
		t := new(big.Int)
		for _, a := range universe {
			t.Add(t, s.GetBalance(a))
		}
		if m := service.MinerManagerImpl.GetMiner(mid, s); m != nil {
			t.Add(t, tokens(m.Stake))
		}
		for h := range heights {
			for _, v := range s.GetAllRefund(service.SimRefundAddress(h)) {
				t.Add(t, v)
			}
		}
		return t
	}
	rb := common.GetRewardBlocks()
	for i, so := range p.StakeOps {
		st.Ops++
		height := ec.height + 1
		if so.Op == "release" {
			var hs []uint64
			for h := range heights {
				if h > ec.height {
					hs = append(hs, h)
				}
			}
			if len(hs) == 0 {
				continue
			}
			sort.Slice(hs, func(a, b int) bool { return hs[a] < hs[b] })
			height = hs[0]
			st.Fault("height_jump_to_escrow_release")
		}
		if rb > 0 && height%rb == 0 {
			height++ // not a reward height: rewards enter the escrow there
		}
		wei, _ := new(big.Int).SetString(so.Wei, 10)
		if wei == nil {
			wei = new(big.Int)
		}
		var txs []*types.Transaction
		where := "release"
		if so.Op != "release" {
			var code evmasm.Code
			switch so.Op {
			case "stake":
				code.PushBytes(saddr.Bytes()).PushBytes(common.BigToHash(wei).Bytes()).Op(0xee)
			case "unstake":
				code.PushBytes(saddr.Bytes()).PushBytes(common.BigToHash(wei).Bytes()).Op(0xef)
			default:
				code.PushBytes(saddr.Bytes()).Op(0xeb)
			}
			code.Op(evmasm.POP, evmasm.STOP)
			common.SetBlockHeight(ec.height)
			s1 := ec.state()
			s1.SetCode(saddr, code)
			commitState(s1)
			txs = []*types.Transaction{node.TxSpec{K: "call", From: 1 + i%3, To: saddr.GetHexString(), Gas: 60000000, Salt: fmt.Sprintf("c06so-%d-%d", p.Seed, i)}.Build()}
			left := uint64(0)
			if m := service.MinerManagerImpl.GetMiner(mid, ec.state()); m != nil {
				left = m.Stake
			}
			heights[service.SimRefundHeight(height, left, 0, mid)] = true
			where = "opcode-" + so.Op
			if so.Op != "unstakeall" && new(big.Int).Mod(wei, oneToken).Sign() != 0 {
				where += "-fraction-of-a-token"
			}
			st.Fault("stake_opcode_" + so.Op)
		}
		before := total()
		rcs, _, _, _ := ec.execBlock(height, txs, true)
		after := total()
		status := -1
		if len(rcs) == 1 {
			status = int(rcs[0].Status)
		}
		stake := uint64(0)
		if m := service.MinerManagerImpl.GetMiner(mid, ec.state()); m != nil {
			stake = m.Stake
		}
		log.Add("%d %s wei=%s height=%d status=%d stake=%d total %s -> %s", i, so.Op, so.Wei, height, status, stake, before, after)
		st.Evaluations++
		st.State(simrt.HashString(fmt.Sprintf("so|%s|%s|%d", so.Op, so.Wei, status)))
		st.Nontrivial(simrt.HashString(fmt.Sprintf("so|%s|%s|%d", so.Op, so.Wei, status)))
		if d := new(big.Int).Sub(after, before); d.Sign() != 0 {
			dir := "created"
			if d.Sign() < 0 {
				dir = "destroyed"
			}
			return viol(i, "sum-not-conserved-"+dir, where, "balances + recorded stake + escrow of the release heights changed by %s across block %d (%s %s wei by the miner's contract account; recorded stake afterwards %d)", d.String(), height, so.Op, so.Wei, stake)
		}
	}
	return nil
}

func (c06) Exec(raw json.RawMessage, st *simrt.Stats, log *simrt.Log) *simrt.Violation {
	var p c06Plan
	if err := json.Unmarshal(raw, &p); err != nil {
		panic(runner.InfraError{Msg: "bad plan: " + err.Error()})
	}
	simmap.Seed = 0
	forks := node.Forks(p.Forks)
	disk := simdisk.NewDisk()
	n := node.Boot(disk, forks, false)
	if len(p.StakeOps) > 0 {
		return c06StakeOps(&p, newExecChain(n), st, log)
	}
	// setup block through the chain: fund harness accounts, deploy one contract of every program kind used by calls
	var txs []*types.Transaction
	for i := 4; i < 8; i++ {
		amt := "9000"
		if i == 7 {
			amt = "0.0031" // a poor account: enough for the flat fee and a tiny gas limit, not for a real gas bill
		}
		txs = append(txs, node.TransferTx(node.Funded[0], 0, map[string]string{node.Account(i): amt}, fmt.Sprintf("fund%d", i)))
	}
	authKey := &node.HarnessKeys[1].SK.PrivKey
	authority := ethcrypto.PubkeyToAddress(authKey.PublicKey)
	txs = append(txs, node.TransferTx(node.Funded[0], 0, map[string]string{authority.GetHexString(): "500"}, "fund-authority"))
	progs := []int{0, 1, 2, 3, 4, 5}
	var creates []*types.Transaction
	for k, pg := range progs {
		val := "0"
		if pg == 5 || pg == 4 {
			val = "6" // endowment that the self-destruct moves / burns
		}
		tx := node.TxSpec{K: "create", From: 1, Nonce: uint64(k), Prog: pg, Value: val, Salt: fmt.Sprintf("setupc%d", k)}.Build()
		creates = append(creates, tx)
		txs = append(txs, tx)
	}
	// the AUTHCALL contract: its code carries the authority's signature over (chain id, the contract's own
	// address), so the address is computed first (creator = account 1, nonce = number of earlier creations)
	acAddr := createAddress(common.HexToAddress(node.Account(1)), uint64(len(progs)))
	{
		commit := common.BytesToHash(common.Sha256([]byte("c06-authcall")))
		msg := make([]byte, 97)
		msg[0] = 0x03
		copy(msg[1:33], common.BigToHash(common.GetChainId(3)).Bytes())
		copy(msg[33:65], common.BytesToHash(acAddr.Bytes()).Bytes())
		copy(msg[65:], commit.Bytes())
		sig, err := ethcrypto.Sign(ethcrypto.Keccak256(msg), authKey)
		if err != nil {
			panic(runner.InfraError{Msg: "C06 setup: sign: " + err.Error()})
		}
		var ac evmasm.Code
		word := func(b []byte) []byte { return common.BytesToHash(b).Bytes() }
		for i, w := range [][]byte{word([]byte{sig[64]}), word(sig[0:32]), word(sig[32:64]), commit.Bytes()} {
			ac.PushBytes(w).Push(uint64(0x100 + 32*i)).Op(evmasm.MSTORE)
		}
		ac.Push(128).Push(0x100).PushBytes(authority.Bytes()).Op(0xf6, evmasm.POP) // AUTH
		// AUTHCALL(nonce = calldata word 0, gas, addr = word 2, value = word 1, valueExt 0, no args, no return data)
		ac.Push(0).Push(0).Push(0).Push(0).Push(0).Push(32).Op(evmasm.CALLDATALOAD).Push(64).Op(evmasm.CALLDATALOAD).Push(200000).Push(0).Op(evmasm.CALLDATALOAD).Op(0xf7, evmasm.POP, evmasm.STOP)
		tx := node.TxSpec{K: "create", From: 1, Nonce: uint64(len(progs)), Data: hex.EncodeToString(evmasm.Deployer(ac)), Salt: "setup-authcall"}.Build()
		creates = append(creates, tx)
		txs = append(txs, tx)
		progs = append(progs, 1000)
	}
	blk, err := n.CastBlock(node.BlockSpec{QN: 1, PV: 1, TimeMs: 1000, Txs: txs})
	if err != nil || n.Chain.AddBlockOnChain(node.CloneBlock(blk)) != types.AddBlockSucc {
		panic(runner.InfraError{Msg: fmt.Sprintf("C06 setup failed: %v", err)})
	}
	var contracts []common.Address
	progOf := map[common.Address]int{}
	for k, tx := range creates {
		ex := n.Pool.GetExecuted(tx.Hash)
		if ex == nil || ex.Receipt.Status != types.ReceiptStatusSuccessful {
			panic(runner.InfraError{Msg: "C06 setup: contract creation failed"})
		}
		contracts = append(contracts, ex.Receipt.ContractAddress)
		progOf[ex.Receipt.ContractAddress] = progs[k]
	}
	if contracts[len(contracts)-1] != acAddr {
		panic(runner.InfraError{Msg: "C06 setup: the AUTHCALL contract is not at the pre-computed address"})
	}
	// second setup block: two registered miners (so that add-stake / refund find something)
	{
		m0 := node.TxSpec{K: "apply", From: 4, Miner: 0, MType: 0, Stake: 800, Salt: "setupm0"}.Build()
		m1 := node.TxSpec{K: "apply", From: 5, Miner: 1, MType: 1, Stake: 2400, Salt: "setupm1"}.Build()
		b2, err := n.CastBlock(node.BlockSpec{QN: 1, PV: 1, TimeMs: 2000, Txs: []*types.Transaction{m0, m1}})
		if err != nil || n.Chain.AddBlockOnChain(node.CloneBlock(b2)) != types.AddBlockSucc {
			panic(runner.InfraError{Msg: fmt.Sprintf("C06 setup block 2 failed: %v", err)})
		}
	}
	simmap.Seed = simrt.Mix(p.Seed, 0x6d6170) | 1
	st.Fault("map_order_seed")
	ec := newExecChain(n)
	viol := func(ev int, clause, where, f string, a ...interface{}) *simrt.Violation {
		return simrt.Violationf("C06", clause, where, ev, f, a...)
	}
	universe := map[common.Address]bool{common.FeeAccount: true}
	for i := 0; i < 8; i++ {
		universe[common.HexToAddress(node.Account(i))] = true
	}
	for _, c := range contracts {
		universe[c] = true
	}
	universe[authority] = true
	{
		s0 := ec.state()
		for t := byte(0); t < 2; t++ {
			for _, m := range service.SimMinerIterate(t, s0) {
				universe[common.BytesToAddress(m.Account)] = true
			}
		}
	}
	escrowHeights := map[uint64]bool{}
	seq := ""
	failedValue := false

	for bi, b := range p.Blocks {
		st.Ops++
		height := ec.height + 1
		if b.Jump > 0 {
			var hs []uint64
			for h := range escrowHeights {
				if h > ec.height {
					hs = append(hs, h)
				}
			}
			sort.Slice(hs, func(i, j int) bool { return hs[i] < hs[j] })
			if len(hs) > 0 {
				height = hs[(b.Jump-1)%len(hs)]
				st.Fault("height_jump_to_escrow_release")
			}
		}
		var btx []*types.Transaction
		specOf := map[common.Hash]node.TxSpec{}
		nonceState := ec.state()
		ctSeq := map[int]uint64{}
		authSeq := uint64(0)
		for _, s := range b.Txs {
			f := ((s.From % 8) + 8) % 8
			if s.Eth {
				// wrapped Ethereum form: nonce-checked against the state (plus the sender's earlier contract
				// transactions of this block, each of which bumps the nonce when it runs)
				want := int64(nonceState.GetNonce(common.HexToAddress(node.Account(f)))+ctSeq[f]) + int64(s.NDelta)
				if want < 0 {
					want = 0
				}
				s.Nonce = uint64(want)
			}
			if (s.K == "create" || s.K == "call") && s.NDelta == 0 {
				ctSeq[f]++
			}
			if strings.HasPrefix(s.To, "#") {
				var k int
				fmt.Sscanf(s.To, "#%d", &k)
				s.To = contracts[k%(len(contracts)-1)].GetHexString() // (the last one is the AUTHCALL contract)
			}
			if s.K == "authcall" {
				val, _ := utility.StrToBigInt(s.Value)
				if val == nil {
					val = new(big.Int)
				}
				in := append(common.BigToHash(new(big.Int).SetUint64(nonceState.GetNonce(authority)+authSeq)).Bytes(), common.BigToHash(val).Bytes()...)
				in = append(in, common.BytesToHash(common.HexToAddress(node.Account(s.Acct)).Bytes()).Bytes()...)
				s.K, s.To, s.Data, s.Value = "call", acAddr.GetHexString(), hex.EncodeToString(in), "0"
				s.Salt += "-ac"
				authSeq++
				st.Fault("authcall_with_value")
			}
			if s.Gas != 0 && s.Gas < 2600000 {
				st.Fault("gas_starvation")
			}
			t := s.Build()
			specOf[t.Hash] = s
			btx = append(btx, t)
		}
		pre := ec.state()
		released := pre.GetAllRefund(service.SimRefundAddress(height))
		releasedSum := new(big.Int)
		for a, v := range released {
			universe[a] = true
			releasedSum.Add(releasedSum, v)
		}
		// self-destruct-to-self candidates: balance and code before the block
		selfBal := map[common.Address]*big.Int{}
		hadCode := map[common.Address]bool{}
		for c, pg := range progOf {
			if pg%8 == 5 {
				selfBal[c] = pre.GetBalance(c)
				hadCode[c] = len(pre.GetCode(c)) > 0
			}
		}
		parentRoot := ec.root
		receipts, _, _, _ := ec.execBlock(height, btx, true)
		post := ec.state()

		locked, burned := new(big.Int), new(big.Int)
		allFailed := true
		selfDestructCalls := 0
		for _, rc := range receipts {
			s := specOf[rc.TxHash]
			ok := rc.Status == types.ReceiptStatusSuccessful
			log.Add("block %d h=%d %s from=%d val=%s gas=%d ok=%v msg=%.80s", bi, height, s.K, s.From, s.Value, s.Gas, ok, rc.Msg)
			seq += fmt.Sprintf("%s%v,", s.K[:2], ok)
			pk := s.K
			if s.Eth {
				pk = "eth" + s.K
			}
			if ok {
				st.Probe("ok_" + pk)
			} else {
				st.Probe("fail_" + pk)
			}
			if !ok {
				st.Fault("failed_tx")
				if s.K == "call" || s.K == "create" || s.K == "xfer" {
					failedValue = true
				}
				continue
			}
			allFailed = false
			switch s.K {
			case "apply", "addstake":
				locked.Add(locked, tokens(s.Stake))
			case "refund":
				var h, m uint64
				if k := strings.Index(rc.Msg, "height: "); k >= 0 {
					fmt.Sscanf(rc.Msg[k:], "height: %d, money: %d", &h, &m)
					escrowHeights[h] = true
				}
				// a stake refund moves exactly what leaves the miner's recorded stake into the escrow of
				// its release height (judged when the refund is the block's only transaction)
				if rb := common.GetRewardBlocks(); len(b.Txs) == 1 && h != 0 && h != height && !(rb > 0 && h%rb == 0) {
					stakeOf := func(db *account.AccountDB) uint64 {
						if mi := service.MinerManagerImpl.GetMiner(node.MinerID(s.Miner), db); mi != nil {
							return mi.Stake
						}
						return 0
					}
					esc := func(db *account.AccountDB) *big.Int {
						sum := new(big.Int)
						for _, v := range db.GetAllRefund(service.SimRefundAddress(h)) {
							sum.Add(sum, v)
						}
						return sum
					}
					left := tokens(stakeOf(pre))
					left.Sub(left, tokens(stakeOf(post)))
					grew := new(big.Int).Sub(esc(post), esc(pre))
					st.Probe("stake_refund_judged")
					if left.Cmp(grew) != 0 {
						return viol(bi, "stake-refund-not-exact", "tx-refund", "refund of %s for miner %d: the recorded stake fell by %s, the escrow of height %d grew by %s", s.Amount, s.Miner, left.String(), h, grew.String())
					}
				}
			case "create":
				universe[rc.ContractAddress] = true
				progOf[rc.ContractAddress] = s.Prog
				contracts = append(contracts, rc.ContractAddress)
			case "call":
				c := common.HexToAddress(s.To)
				if progOf[c]%8 == 5 && hadCode[c] {
					selfDestructCalls++
				}
			}
		}
		// failed creations still compute an address that may have received nothing; add reported ones
		for _, rc := range receipts {
			if (rc.ContractAddress != common.Address{}) {
				universe[rc.ContractAddress] = true
			}
		}
		var addrs []common.Address
		for a := range universe {
			addrs = append(addrs, a)
		}
		sort.Slice(addrs, func(i, j int) bool { return bytes.Compare(addrs[i].Bytes(), addrs[j].Bytes()) < 0 })
		save := ec.root
		ec.root = parentRoot
		before, _, sv := ec.sumBalances(addrs)
		ec.root = save
		if sv != nil {
			return viol(bi, sv.clause, "before-block", "%s", sv.detail)
		}
		after, _, sv := ec.sumBalances(addrs)
		if sv != nil {
			return viol(bi, sv.clause, "after-block", "%s", sv.detail)
		}
		// self-destruct naming itself: the contract's whole balance (endowment + value just received) disappears.
		// Measured, not predicted: if the contract existed before and has no code now, what it held is gone.
		for c, bal := range selfBal {
			if hadCode[c] && len(post.GetCode(c)) == 0 {
				got := new(big.Int).Set(bal)
				for _, rc := range receipts {
					s := specOf[rc.TxHash]
					if s.K == "call" && common.HexToAddress(s.To) == c && rc.Status == types.ReceiptStatusSuccessful {
						if v, err := parseAmount(s.Value); err == nil {
							got.Add(got, v)
						}
						// the account is only deleted when the block is finalised: later calls in the
						// same block run the code again and self-destruct to themselves again
					}
				}
				got.Sub(got, post.GetBalance(c)) // anything a later plain transfer left at the address stays counted
				if got.Sign() > 0 {
					burned.Add(burned, got)
				}
			}
		}
		want := new(big.Int).Add(before, releasedSum)
		want.Sub(want, locked)
		want.Sub(want, burned)
		if after.Cmp(want) != 0 {
			d := new(big.Int).Sub(after, want)
			where := "block"
			if len(b.Txs) == 1 {
				where = "tx-" + b.Txs[0].K
				if allFailed {
					where += "-failed"
				}
				if (b.Txs[0].K == "call" || b.Txs[0].K == "create") && strings.HasPrefix(b.Txs[0].Value, "-") {
					where += "-negative-transfer-value"
				}
				if b.Txs[0].K == "authcall" && len(receipts) == 1 && d.Sign() > 0 &&
					d.Cmp(new(big.Int).Mul(new(big.Int).SetUint64(receipts[0].GasUsed), big.NewInt(1000000000))) == 0 {
					// exactly the gas fee of the transaction: credited to the fee account although the origin, whose
					// funds the AUTHCALL spent as sponsor, could no longer be debited
					where = "tx-authcall-gas-fee-credited-not-debited"
				}
			}
			dir := "created"
			if d.Sign() < 0 {
				dir = "destroyed"
			}
			return viol(bi, "sum-not-conserved-"+dir, where, "sum of balances after block %d (height %d) differs by %s from before (%s) + released escrow (%s) - stake locked (%s) - self-destructed-to-self (%s)", bi, height, d.String(), before.String(), releasedSum.String(), locked.String(), burned.String())
		}
		st.Evaluations++
	}
	st.State(simrt.HashString(seq))
	if failedValue {
		st.Nontrivial(simrt.HashString(seq))
	}
	return nil
}

// parseAmount converts a decimal token amount (<=18 fractional digits) to base units.
func parseAmount(s string) (*big.Int, error) {
	neg := strings.HasPrefix(s, "-")
	s = strings.TrimPrefix(s, "-")
	parts := strings.SplitN(s, ".", 2)
	frac := ""
	if len(parts) == 2 {
		frac = parts[1]
	}
	if len(frac) > 18 {
		frac = frac[:18]
	}
	for len(frac) < 18 {
		frac += "0"
	}
	v, ok := new(big.Int).SetString(parts[0]+frac, 10)
	if !ok {
		return nil, fmt.Errorf("bad amount %q", s)
	}
	if neg {
		v.Neg(v)
	}
	return v, nil
}

func (c06) Shrink(raw json.RawMessage) []json.RawMessage {
	var p c06Plan
	json.Unmarshal(raw, &p)
	var out []json.RawMessage
	emit := func(q c06Plan) {
		b, _ := json.Marshal(q)
		out = append(out, b)
	}
	for chunk := len(p.Blocks) / 2; chunk >= 1; chunk /= 2 {
		for s := 0; s+chunk <= len(p.Blocks); s += chunk {
			q := p
			q.Blocks = append(append([]c06Block{}, p.Blocks[:s]...), p.Blocks[s+chunk:]...)
			emit(q)
		}
	}
	for i, b := range p.Blocks {
		if len(b.Txs) > 1 {
			for j := range b.Txs {
				q := p
				q.Blocks = append([]c06Block{}, p.Blocks...)
				q.Blocks[i].Txs = append(append([]node.TxSpec{}, b.Txs[:j]...), b.Txs[j+1:]...)
				emit(q)
			}
		}
		for j, t := range b.Txs {
			if len(t.Targets) > 1 {
				q := p
				q.Blocks = append([]c06Block{}, p.Blocks...)
				q.Blocks[i].Txs = append([]node.TxSpec{}, b.Txs...)
				q.Blocks[i].Txs[j].Targets = t.Targets[:len(t.Targets)-1]
				emit(q)
			}
		}
	}
	return out
}
