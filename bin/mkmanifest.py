#!/usr/bin/env python3
"""Regenerates /verif/MANIFEST.json from the tables below and validates it."""
import json, os, subprocess, sys
V = os.path.dirname(os.path.dirname(os.path.abspath(__file__)))

NA = {
 "C08": "RLP encode/decode are pure functions of their input bytes/values; no schedule, clock, I/O fault, crash point, history or second party exists for a simulator to control (DESIGN.md section 6)",
 "C10": "opcode conformance of a deterministic single-threaded interpreter to an external specification is a pure function of (program, operands); it needs a reference EVM, not a scheduler or fault injector (DESIGN.md section 6)",
 "C11": "totality/gas-boundedness over all programs is a statement about a pure deterministic function of (code, input, gas); nothing for deterministic simulation to schedule or fault (DESIGN.md section 6)",
 "C14": "BLS verification soundness and encodings are pure functions of (key, message, bytes) (DESIGN.md section 6)",
 "C16": "VRF prove/verify and the big-integer transport round trip are pure functions of (key, message, proof) (DESIGN.md section 6)",
 "C18": "decimal string/integer conversions are pure arithmetic on their arguments (DESIGN.md section 6)",
}

# id -> (level, level text, level note, technique)
CHECKS = {}
def add(id, level, text, note, technique):
    CHECKS[id] = (level, text, note, technique)

add("C01", "exploration",
    "seeded test blocks of every executor type (native and wrapped-Ethereum contract transactions, multi-target transfers, miner transactions incl. add-stake to genesis proposers, proposer-heavy blocks; optionally skipping >300 heights so that setup miners - incl. 3-5 proposers sharing one reward account - are counted in the reward step) on a funded parent state are executed by 4 (quick) / 8 (thorough) replica incarnations of the real node that differ in seeded map-iteration order (instrumented build), wall clock (epoch shift, per-call drift), cold boot from the parent's disk image vs warm node (seeded first-touch reads, executed-and-discarded block) vs a fresh incarnation that first executed a COMPETING block of the same height; state root, evicted list, executed list and every receipt (status, text, logs, gas, contract address) must be byte-identical; in 20% of the plans 2-3 executions of the block plus the competing block run CONCURRENTLY in one process under the seeded scheduler and must each give the same outcome; then proposer-casts (asynchronous casting goroutine scheduled by the simulator in the Proposal020 configuration) / other-incarnation-adds through the exported chain API. Second stage: 24 (quick) / 300 (thorough) concurrent-execution plans in a -race build whose task hand-off is invisible to the race detector; a data race between two accesses inside the execution packages is a violation. Sampling, not proof.",
    "trusted: map-order instrumentation (every range over a map / sync.Map in the anchored packages is rewritten to a seeded permutation - any order is a legal Go execution), simulated clock hook, in-process replica incarnations with process-local caches reset; yield points exist only in service/core/middleware (races inside other packages are not interleaved, the race stage reports their missing happens-before edge instead); the Go race detector's bounded access history",
    "deterministic simulation: replica twin runs under seeded map order / clock / cache warmness / process history + concurrent executions under a seeded scheduler + race detector over simulator-chosen schedules + cast-verify protocol path")

add("C02", "exploration",
    "seeded search over operation histories (update/delete/get/hash/commit/warm+cold reopen/cache-limit/size-driven node-cache eviction (NodeDatabase.Cap)/iterate, 1-2 tries on one node database) with one-shot disk read faults on the simulated disk, or - fault-free plans, about a third - on the repository's own MemDatabase; after every operation the real trie is compared with an independent Yellow-Paper MPT root and a map model. Sampling, not proof: a clean batch is evidence for the histories explored.",
    "trusted: keccak256 (x/crypto), the harness's own RLP/hex-prefix reference (model/mpt.go), simdisk.KV (plans with faults); the trie, hasher, node database and iterator are the real code",
    "deterministic simulation: seeded histories + disk read faults vs reference MPT model")

add("C03", "fault_enumeration",
    "for seeded histories of blocks (half of them >100 KiB so the commit spans several batch writes; code up to 120 KB; writes inside reverted snapshots; slots emptied and rewritten; one-byte values; prefix-related storage keys; 24-140 slots of one account at once) each executed on a new AccountDB at its parent root and committed as blockChain.saveStates does, the reference for a root being what the executing state answered right BEFORE the commit, EVERY prefix of every commit's physical write sequence is materialised as a crash image and opened cold: all earlier roots and - when its top node is present, and always after an acknowledged commit - the new root must resolve completely (account trie, storage tries, code) and read back the recorded values; plus a failing-write variant (Commit must report the error, older roots stay intact, and a commit of the same root repeated by the surviving process must not report success unless the root is on disk). Exhaustive over write prefixes per history; histories are sampled.",
    "crash model = process death (completed writes survive, a batch is atomic, nothing torn): the code never syncs and the property speaks of process death; trusted: simdisk.KV",
    "deterministic simulation: crash-point enumeration over the physical write log + cold reopen + complete walk")

add("C04", "exploration",
    "seeded search over histories of every AccountDB mutator (balances up to uint256 boundary values; in 5% of the plans a native-token binding made inside a snapshot that is reverted at once, on a base state without one; in 12% an instance life crossing Proposal002's height), nested Snapshot/RevertToSnapshot, cache-warming reads, Prepare, Commit + warm/cold reopen on the simulated disk; oracles: the statement's query vector recorded at each snapshot must be answered identically right after the revert, and a twin run without the reverted segments must give the same intermediate and committed root (difference classified leaf by leaf). Sampling, not proof.",
    "trusted: simdisk.KV, the closed observation universe; AccountDB/journal/tries are the real code; base states start with the native-token contract binding every genesis creates (except the no-binding plans)",
    "deterministic simulation: seeded histories with nested reverts + reopen faults; observation and twin-run oracles")

add("C05", "fault_enumeration",
    "seeded block trees generated with the node's own cast/verify/assemble API are delivered to a fresh real node in seeded orders (duplicates, orphans first, re-deliveries, restarts; deliveries between restarts run as one task of the seeded scheduler); in about a third of the plans one branch arrives through the SYNC path instead (fork store rooted at the common ancestor, verification and execution on the fork, blockChainFork.triggerOnChain) as one delivery; the invariant of the statement is checked on the live node after every delivery and - exhaustively per plan - on a new incarnation booted from the disk image after EVERY individual store write inside every delivery (crash + restart), followed by a progress check (a valid child of the restarted head is accepted). Reference fork-choice comparator for weight monotonicity; half of the reorg scenarios are equal-TotalQN weight contests decided at the fork point, with height gaps on either branch.",
    "trusted: simulated storage under real goleveldb (completed writes survive, nothing torn), stub ConsensusHelper (signatures/VRF accepted), in-process restart through in-package drivers; one real node, peers are the delivery script",
    "deterministic simulation: block-tree delivery schedules + crash-after-every-store-write enumeration + restart")

add("C06", "exploration",
    "invariant monitor over a closed address universe while seeded value-heavy transactions (multi-target transfers failing part-way, weird amounts, fees without balance, contract create/call with value into forwarding / reverting / gas-burning / self-destructing programs, gas limits around the intrinsic cost, miner stake lock and refund escrow) are executed one per block (mostly) by the real block executor on successive committed states, at plan-chosen heights (escrow release), under seeded map order: sum(after) - sum(before) = released escrow - stake locked - self-destructed-to-self; every balance in [0, 2^256); failed transactions leave the sum unchanged; an accepted stake refund moves exactly what leaves the miner's recorded stake into the escrow of its release height. Stake-opcode plans (6%): a contract that is the account of a registered validator executes STAKE / UNSTAKE / UNSTAKEALL with seeded operands (whole tokens, fractions, 1 wei, amounts that dismiss the miner), one per block, with jumps to the release heights: balances + recorded stake + escrow of the release heights must stay constant. Sampling, not proof.",
    "trusted: closed universe (targets, created contracts, beneficiaries are added as they appear), released escrow read from the escrow entries before the block, stub ConsensusHelper",
    "deterministic simulation: value-movement histories with gas-starvation faults + conservation monitor")

add("C12", "exploration",
    "seeded call trees (2-14 frames, CALL/CALLCODE/DELEGATECALL/STATICCALL, effects SSTORE / LOG / value transfer / CREATE, endings RETURN / REVERT / INVALID / infinite loop / stack fault, limited gas shares, starved root gas) are deployed as contracts and executed by the real block executor; every successful frame returns the bitmap of frames of its subtree whose effects must persist, so the root return data carries the actual outcome of every frame; storage of every frame slot, ordered receipt logs, balances, nonces and created accounts must equal exactly the effects of the reported frames, and nothing from a STATICCALL subtree may persist or report success after writing. Failed-creation plans: an inner CREATE/CREATE2 - or, in 30% of them, a contract-creation TRANSACTION - whose init code stores, logs and pays and then ends by returning 1 byte / a code deposit it cannot pay / oversized code / REVERT / INVALID: a creation that reported failure leaves no account, storage, balance or log (receipt of a failed transaction carries none). Stake-opcode / AUTHCALL plans: the node's state-changing opcodes inside a STATICCALL. Cross-transaction plans run 2-4 transactions on one state object and check per-receipt logs, equal gas (no inherited warm access list) and empty transient storage at the start of each; half of them only warm ADDRESSES (account-access opcodes, inner CREATE, deployment transaction), compare every probe's gas with the same probe alone in a block, and inspect the access list of the executor's state object right after Prepare for a next transaction (EIP-2929 gas is switched off in this VM, so the list is otherwise unobservable). Sampling, not proof.",
    "trusted: the harness assembler and the bitmap protocol of the generated contracts (a frame can only report success by executing its RETURN), per-frame slots/topics make every observed value attributable; SELFDESTRUCT only in leaf frames",
    "deterministic simulation: generated call trees with gas-starvation faults; outcome-bitmap + exact post-state oracle; same-state-object transaction sequences")

add("C13", "exploration",
    "n in [3,10] member objects run the node's own DKG code with the n*n share pieces delivered over a simulated transport in seeded order with duplicates; every member signs 1-3 messages and 2-5 collectors (real GroupSignGenerator) receive the shares in seeded arrival orders with drops, duplicates and late arrivals, under a seeded internal k-subset choice (randomness hook) and seeded share-map iteration order (instrumented build); for n<=7 every k-subset is additionally recovered directly; in 30% of the plans one more collector is fed by 2-4 concurrently scheduled handler tasks that also poll it (every signature handed out must be the reference), and a second stage runs 40 (quick) / 400 (thorough) such plans in a -race build whose task hand-off is invisible to the race detector (a data race inside consensus/model or consensus/groupsig is a violation). Oracle: same group public key on every member = sum of dealers' public keys; shares verify under public shares; threshold = ceil(51% n); every recovery equals H(m)^s for the independently summed secret and verifies under the group key; nothing below the threshold. Sampling (plus per-plan exhaustive subsets), not proof.",
    "trusted: the repository's Sign/VerifySig (soundness is C14, not applicable to this technique) for the reference signature on the independently summed secret; seeded randomness hook in base.NewRand; map-order instrumentation",
    "deterministic simulation: DKG + share collection under reorder/duplicate/drop, seeded subset choice and map order vs algebraic reference; concurrent handlers under a seeded scheduler + race detector over simulator-chosen schedules")

add("C15", "exploration",
    "one verifier runs the real SignParty (round1 -> round2, stored-message replay) on a booted node for a group keyed by the node's DKG code and a really cast block; the other members are scripted, honest or Byzantine (valid signature over another hash filed under this block, another member's share, duplicates, non-member id, garbage points, bad beacon / bad block share, and - after the same verifier process has signed an earlier block of the group - that member's valid share of the EARLIER block replayed inside a message naming this block), their protobuf messages decoded by the real decoder and delivered in seeded orders, also before the proposal is accepted, as scheduler tasks. After every delivery the two share sets may only hold each member's valid share for this block hash / previous beacon; once k honest members are in and at most n-k members are Byzantine the party must have finalised within that delivery with a valid block signature and beacon (bounded liveness). Sampling, not proof.",
    "trusted: in-package driver positions the party after round0's acceptance checks (not part of C15); recording fake consensus network; stub ConsensusHelper on the chain that receives the finalised block",
    "deterministic simulation: real signing round with Byzantine members and seeded arrival orders; share-set invariant + bounded-liveness oracle")

add("C17", "exploration",
    "seeded operation histories on the real TxPool (add fresh/duplicate/executed/evicted, pack against plan-set state nonces, mark-executed with evictions, unmark (reorg), lookups, simulated cycle-ticker firings, node restarts) checked after every operation against a sequential reference pool and the statement's pack rules (no duplicates, <=200, no executed hash, per-sender ascending nonces, none ahead of the expected nonce, eligible pending transactions offered); concurrent part: 2-4 client tasks issue the same operations under the simulator's seeded scheduler (yield points inserted at function entries, lock sites and store writes of the pool code; chain lock discipline as in the node), with at-most-once and structural invariants at quiescence and a per-hash linearizability check of the recorded history (porcupine); then a second stage re-runs 60 (quick) / 800 (thorough) seeded concurrent plans in a -race build whose task hand-off is invisible to the race detector, so that any two pool accesses the simulator ordered but the node's own locks do not order are reported as a data race of that plan (filtered to stacks inside the pool). Sampling, not proof.",
    "trusted: reference pool model, the inserted yield points are the interleaving granularity (effects of races inside a function body between two yield points are not schedulable; the race stage reports their missing happens-before edge instead), the Go race detector's bounded access history, goleveldb/gmap/lru run real but are not under test",
    "deterministic simulation: op histories vs reference pool; seeded interleavings at inserted yield points; porcupine on recorded histories; race detector over simulator-chosen schedules")

add("C07", "exploration",
    "a booted real node with its ingress handlers receives honestly signed native and EIP-155 wrapped transactions, and the same transactions tampered by exactly one mutation (substitution of each authenticated field with or without recomputed hash, signature r/s/v bit flips, spliced signature, single bit flips of the marshalled bytes, outer-field substitutions, inner RLP re-encodings under the original signature, forged wrapped payloads with unrecoverable or other-chain signatures declaring the zero address as sender, bytes appended behind the signed payload, and the honest field values re-spelled non-canonically in RLP) through the peer-to-peer receive path (alone or in one batch with an intact honest transaction), the client write topic and both branches of the queued write handler, handler goroutines running as tasks of the seeded scheduler. Exact oracle at quiescence: the pending pool equals the honestly signed transactions that were delivered intact. Sampling, not proof.",
    "trusted: harness key material and the mutation generator (never produces the ECDSA twin); unauthenticated fields are not mutated; gate/websocket layer stubbed (bytes injected at handleMessage)",
    "deterministic simulation: Byzantine transport (tamper fault) on every ingress path + exact admission oracle")

add("C09", "exploration",
    "every block, header, transaction and group the simulated node produces or parses crosses the real codecs (marshal -> parse -> re-hash and re-marshal; store -> reload; relay to another incarnation), edge-valued in-memory objects must reach a fixed point after one pass, the genesis header, fully populated boundary headers (prove value 0/1/255/256) and seeded transactions with unusual field texts (upper-case / EIP-55 / 0X-prefixed / non-address sources, binary and unicode data, extreme integers) must keep hash and fields, and a corrupting transport (bit flips, truncation, extension, removal of one optional protobuf field, random bytes) feeds every exported parser and the node's receive path as envelopes and as gateway frames (NewBlockMsg, ReqTransactionMsg, TransactionGotMsg handlers as scheduler tasks; corrupted consensus messages - proposal, verification share, key share piece, signing-key announcement - into the real ConsensusHandler.Handle and consensus/net/msg_decode.go, also as a task); any panic that escapes is a violation and an intact block must still be processed afterwards. Sub transactions with balance/coin/FT/asset maps must arrive field by field. In 40% of the plans 2-3 scheduler tasks marshal the node's objects concurrently (statement-level yields inside middleware/types) and must each receive the bytes the call returns alone; a second stage runs 24 (quick) / 300 (thorough) such plans in a -race build whose task hand-off is invisible to the race detector. Sampling, not proof.",
    "trusted: golang/protobuf, the stub ConsensusHelper performs the structural header checks of the real one (hash, parent hash) but accepts group signatures; the consensus message processors behind the real handler are no-ops (decoded messages are dropped); the sync processor is not started and its message kinds are not driven",
    "deterministic simulation: codec hops on simulated transport/disk + transport corruption faults (incl. consensus messages through the real handler); panic-free and hash-stability oracles; concurrent callers under a seeded scheduler + race detector over simulator-chosen schedules")

add("C19", "fault_enumeration",
    "seeded histories of AddGroup (valid; invalid in several ways; valid successors with arbitrary unauthenticated wire height fields; a valid successor the store cannot encode; two competing callers under the seeded scheduler; the chain's fork-switch removal alone and racing with an AddGroup), remove-last-group, remove-then-different-group and restart on a booted real node; the invariant (linked list from genesis, count, height index below and above count, by-id retrieval, removed groups gone, sync successors) is checked against a slice model on the live node after every operation and - exhaustively per history - on a fresh incarnation booted from the disk image taken after every operation. Crash points inside an operation are booted too but only reported as probes (outside the property's quantifier).",
    "trusted: simulated storage under real goleveldb (completed writes survive), stub ConsensusHelper.CheckGroup, in-process restart (singletons reset through in-package drivers)",
    "deterministic simulation: op histories + restart-after-every-op enumeration from disk images vs slice model")

add("C20", "exploration",
    "seeded histories of miner apply / add-stake / refund / change-account / become-node transactions (valid and invalid, refund payloads lacking a field, interleaved with transfers) executed by the real block executor on successive committed states at plan-chosen heights (jumping to escrow release heights), with restarts and seeded map order; a reference ledger that observes receipt statuses checks, after every block: lookup by id (two ways) / by account / by iteration agree; stake = applied + added - refunded; election totals = sum over active records; one miner per account; liquid balances moved by exactly released escrow minus stake locked; refund escrow grew by exactly the refunded amounts; a rejected miner transaction leaves nothing but fee/nonce (twin execution); a change of account changes nothing else of the record. Sampling, not proof.",
    "trusted: the ledger (observes acceptance, rules only on double control of an account and refunds above the stake), closed address universe, stub ConsensusHelper; blocks are executed and committed as saveStates does but not inserted into the chain (heights are plan-chosen)",
    "deterministic simulation: miner-transaction histories + restarts + seeded map order vs reference ledger and twin execution")

hooks_commits = subprocess.run(["git", "-C", "/repo", "log", "--format=%h %s", "--grep=^verif hook"], capture_output=True, text=True).stdout.strip().splitlines()

m = {
 "version": 1,
 "setup_cmd": "bin/setup",
 "hooks": {
  "guard": "verif",
  "enable": "bin/build: go build -tags verif -overlay <harness under src/zzverif + in-package driver files from /verif/overlay> -modfile <copy of go.mod with go 1.20 (same loop-variable semantics as the shipped go 1.13) + porcupine>; /repo is never written",
  "baseline_off_cmd": "cd /repo && GOFLAGS=-mod=mod go test -json -vet=off -count=1 -timeout 25m ./...",
  "source_commits": [l.split()[0] for l in hooks_commits],
  "add_only": True,
 },
 "engines": [{
  "name": "verifsim", "path": "sim/", "serves_properties": sorted(CHECKS),
  "kind_free_text": "deterministic simulation with fault injection: one seed -> plan (ops + faults + schedule/map-order/clock seeds); real code over simulated disk, clock, transport and randomness; reference-model oracles after every step; plan shrinking; replay files",
 }],
 "checks": [],
 "not_applicable": [{"property_id": k, "reason": v} for k, v in sorted(NA.items())],
 "notes": "All checks: bin/check <id> <tier> rebuilds the simulator from /repo's working tree (Go overlay, tag verif), runs the seeded search with VERIF_SEED, writes evidence/<id>.json; exit 0 held / 1 VIOLATION / 2 infrastructure. Known findings: known_findings.json. See DESIGN.md.",
}
for id in sorted(CHECKS):
    level, text, note, tech = CHECKS[id]
    m["checks"].append({
     "property_id": id,
     "quick_cmd": "bin/check %s quick" % id,
     "thorough_cmd": "bin/check %s thorough" % id,
     "evidence_file": "evidence/%s.json" % id,
     "replay_cmd_template": "bin/check %s quick --replay {path}" % id,
     "engine": "verifsim",
     "level_claimed": {"category": level, "text": text, "design_ref": "DESIGN.md section 5, " + id},
     "level_note": note,
     "technique": tech,
    })
json.dump(m, open(os.path.join(V, "MANIFEST.json"), "w"), indent=1)
try:
    import jsonschema
    jsonschema.validate(m, json.load(open("/root/.vp/MANIFEST.schema.json")))
    print("MANIFEST.json valid:", len(m["checks"]), "checks,", len(m["not_applicable"]), "n/a")
except ImportError:
    print("jsonschema not available; not validated")
