//go:build verif
// +build verif

package middleware

import "com.tuntun.rangers/node/src/middleware/notify"

// SimRunWrite hands one queued client/JSON-RPC transaction message to the handler the
// game executor registered (what the priority queue does when its turn comes).
func SimRunWrite(m *notify.ClientTransactionMessage) bool {
	h := AccountDBManagerInstance.waitingTxs.handler
	if h == nil {
		return false
	}
	h(&Item{Value: m})
	return true
}
