#!/usr/bin/env python3
"""Filters the race detector's reports of a `verifsim racerun` (race + simrace build) down to
data races of the transaction pool's own code: both accesses must have a frame in package
service (TxPool / simpleContainer paths), and neither access itself may be harness code.
usage: racefilter.py <race.log> <replay-out.json>   -> prints summary; exit 1 if a pool race remains."""
import json, re, sys
log, out = sys.argv[1], sys.argv[2]
txt = open(log, errors='replace').read()
plans = {}
cur = None
found = []
total = 0
racemode = 'racemode=true' in txt
pos = 0
for m in re.finditer(r'^RACEPLAN (\d+) (\{[^\n]*\})$|WARNING: DATA RACE\n(.*?)\n==================', txt, re.S | re.M):
    if m.group(1) is not None:
        cur = int(m.group(1)); plans[cur] = m.group(2); continue
    total += 1
    body = m.group(3)
    blocks = [b for b in re.split(r'\n\n', body) if re.match(r'\s*(Read|Write|Previous read|Previous write|Atomic)', b.strip())]
    if len(blocks) < 2:
        continue
    ok = True
    tops = []
    for b in blocks[:2]:
        frames = re.findall(r'^\s+([\w./*()\[\]·-]+)\(\)\s*$', b, re.M)
        if not frames:
            ok = False; break
        top = frames[0]
        # skip runtime/atomic shims
        nonrt = [f for f in frames if not f.startswith('runtime.') and not f.startswith('sync/atomic.')]
        top = nonrt[0] if nonrt else top
        if '/zzverif/' in top:
            ok = False; break
        if not any('/src/service.' in f and 'zzverif' not in f and 'Sim' not in f for f in frames):
            ok = False; break
        svc = [f for f in frames if '/src/service.' in f][0]
        tops.append(svc.split('/src/')[-1])
    if ok:
        found.append((cur, ' <-> '.join(sorted(tops)), body))
print("race oracle: racemode=%s plans=%d reports=%d pool_races=%d" % (racemode, len(plans), total, len(found)))
if found:
    planidx, cls, body = found[0]
    rep = {"property": "C17", "race": True, "class": "C17/data-race/" + cls, "detail": body[:4000], "plan": json.loads(plans.get(planidx, "{}")), "shrunk": False}
    json.dump(rep, open(out, 'w'), indent=1)
    print("pool data race: %s (plan %s)" % (cls, planidx))
    sys.exit(1)
if not racemode or not plans:
    sys.exit(2)
sys.exit(0)
