// Package simrt holds the simulator's deterministic primitives: the PRNG every
// choice is drawn from, the event log, violation classes and run statistics.
package simrt

import (
	"encoding/binary"
	"hash/fnv"
)

// Rand is a splitmix64 stream. One VERIF_SEED value initialises the root
// stream; every plan, schedule, fault and generated operation derives from it.
type Rand struct{ s uint64 }

func NewRand(seed uint64) *Rand { return &Rand{s: seed} }

func (r *Rand) U64() uint64 {
	r.s += 0x9e3779b97f4a7c15
	z := r.s
	z = (z ^ (z >> 30)) * 0xbf58476d1ce4e5b9
	z = (z ^ (z >> 27)) * 0x94d049bb133111eb
	return z ^ (z >> 31)
}

// Intn returns a value in [0,n). n<=0 yields 0.
func (r *Rand) Intn(n int) int {
	if n <= 1 {
		return 0
	}
	return int(r.U64() % uint64(n))
}

// Range returns a value in [lo,hi].
func (r *Rand) Range(lo, hi int) int {
	if hi <= lo {
		return lo
	}
	return lo + r.Intn(hi-lo+1)
}

func (r *Rand) Float() float64 { return float64(r.U64()>>11) / float64(1<<53) }

func (r *Rand) Chance(p float64) bool { return r.Float() < p }

func (r *Rand) Bytes(n int) []byte {
	b := make([]byte, n)
	for i := 0; i < n; i += 8 {
		var t [8]byte
		binary.LittleEndian.PutUint64(t[:], r.U64())
		copy(b[i:], t[:])
	}
	return b
}

func (r *Rand) Perm(n int) []int {
	p := make([]int, n)
	for i := range p {
		p[i] = i
	}
	for i := n - 1; i > 0; i-- {
		j := r.Intn(i + 1)
		p[i], p[j] = p[j], p[i]
	}
	return p
}

// Fork derives an independent stream; the parent stream is not advanced.
func (r *Rand) Fork(label string) *Rand {
	return NewRand(Mix(r.s, HashString(label)))
}

func Mix(a, b uint64) uint64 {
	x := NewRand(a ^ (b * 0x9e3779b97f4a7c15))
	x.U64()
	return x.U64() ^ b
}

func HashString(s string) uint64 {
	h := fnv.New64a()
	h.Write([]byte(s))
	return h.Sum64()
}

func HashBytes(b ...[]byte) uint64 {
	h := fnv.New64a()
	for _, x := range b {
		var l [4]byte
		binary.LittleEndian.PutUint32(l[:], uint32(len(x)))
		h.Write(l[:])
		h.Write(x)
	}
	return h.Sum64()
}
