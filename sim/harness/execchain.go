package harness

import (
	"fmt"
	"math/big"
	"time"

	"com.tuntun.rangers/node/src/common"
	"com.tuntun.rangers/node/src/core"
	"com.tuntun.rangers/node/src/middleware"
	"com.tuntun.rangers/node/src/middleware/types"
	"com.tuntun.rangers/node/src/storage/account"
	"com.tuntun.rangers/node/src/zzverif/node"
	"com.tuntun.rangers/node/src/zzverif/runner"
)

// execChain executes blocks with the real block executor on successive committed
// states of a booted node, committing exactly as blockChain.saveStates does. Heights
// are chosen by the plan (so that escrow release heights can be reached).
type execChain struct {
	n       *node.Node
	root    common.Hash
	height  uint64
	groupID []byte
	last    *account.AccountDB // the state object the last block was executed on
}

func newExecChain(n *node.Node) *execChain {
	top := n.Chain.TopBlock()
	return &execChain{n: n, root: top.StateTree, height: top.Height, groupID: n.Groups.GetGroupByHeight(0).Id}
}

func (c *execChain) state() *account.AccountDB {
	st, err := middleware.AccountDBManagerInstance.GetAccountDBByHash(c.root)
	if err != nil {
		panic(runner.InfraError{Msg: "execChain: cannot open state: " + err.Error()})
	}
	return st
}

// execBlock executes txs at height and commits. Returns receipts in execution order,
// the executed transactions and the evicted hashes.
func (c *execChain) execBlock(height uint64, txs []*types.Transaction, commit bool) ([]*types.Receipt, []*types.Transaction, []common.Hash, common.Hash) {
	common.SetBlockHeight(height - 1)
	st := c.state()
	cp := make([]*types.Transaction, len(txs))
	for i, t := range txs {
		x := *t
		cp[i] = &x
	}
	hdr := &types.BlockHeader{Height: height, Castor: common.FromHex(node.Castors[0]), GroupId: c.groupID, ProveValue: big.NewInt(1),
		CurTime: node.EpochTime.Add(time.Duration(height) * time.Second), RequestIds: map[string]uint64{}}
	hdr.Hash = hdr.GenHash()
	root, evicted, executed, receipts := core.SimExecuteBlock(st, &types.Block{Header: hdr, Transactions: cp}, "fullverify")
	c.last = st
	if commit {
		r2, err := st.Commit(true)
		if err == nil {
			err = middleware.AccountDBManagerInstance.GetTrieDB().Commit(r2, false)
		}
		if err != nil {
			panic(runner.InfraError{Msg: "execChain: commit: " + err.Error()})
		}
		if r2 != root {
			panic(runner.InfraError{Msg: fmt.Sprintf("execChain: IntermediateRoot %x != Commit root %x", root.Bytes()[:6], r2.Bytes()[:6])})
		}
		c.root, c.height = root, height
	}
	return receipts, executed, evicted, root
}

// sumBalances adds the native balances of addrs on the committed state root.
func (c *execChain) sumBalances(addrs []common.Address) (*big.Int, map[common.Address]*big.Int, *simViolation) {
	st := c.state()
	sum := new(big.Int)
	each := map[common.Address]*big.Int{}
	limit := new(big.Int).Lsh(big.NewInt(1), 256)
	for _, a := range addrs {
		b := st.GetBalance(a)
		if b.Sign() < 0 || b.Cmp(limit) >= 0 {
			return nil, nil, &simViolation{"balance-out-of-range", fmt.Sprintf("balance of %s is %s", a.GetHexString(), b.String())}
		}
		each[a] = new(big.Int).Set(b)
		sum.Add(sum, b)
	}
	return sum, each, nil
}

type simViolation struct{ clause, detail string }

var oneToken = new(big.Int).Exp(big.NewInt(10), big.NewInt(18), nil)

func tokens(n uint64) *big.Int { return new(big.Int).Mul(new(big.Int).SetUint64(n), oneToken) }
