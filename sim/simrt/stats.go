package simrt

import (
	"encoding/json"
	"fmt"
	"sort"
)

// Violation is a failed oracle clause. Class() never contains concrete hashes or
// values, so that shrinking and replay can assert "the same violation".
type Violation struct {
	Property string `json:"property"`
	Clause   string `json:"clause"` // oracle clause id
	Where    string `json:"where"`  // coarse location / shape
	Detail   string `json:"detail"` // free text with concrete values
	Event    int    `json:"event"`  // index of the op/event at which it was detected
}

func (v *Violation) Class() string {
	if v == nil {
		return ""
	}
	return v.Property + "/" + v.Clause + "/" + v.Where
}

func (v *Violation) Error() string {
	return fmt.Sprintf("%s at event %d: %s", v.Class(), v.Event, v.Detail)
}

func Violationf(prop, clause, where string, event int, format string, a ...interface{}) *Violation {
	return &Violation{Property: prop, Clause: clause, Where: where, Event: event, Detail: fmt.Sprintf(format, a...)}
}

// Stats is what a worker measured. It is merged by the parent into the evidence file.
type Stats struct {
	Evaluations int64            `json:"evaluations"`
	Plans       int64            `json:"plans"`
	Ops         int64            `json:"ops"`
	SimTimeMs   int64            `json:"sim_time_ms"`
	Faults      map[string]int64 `json:"faults"`
	Probes      map[string]int64 `json:"probes"`
	Distinct    map[uint64]bool  `json:"-"`
	DistinctL   []uint64         `json:"distinct"`
	States      map[uint64]bool  `json:"-"`
	StatesL     []uint64         `json:"states"`
	Samples     []interface{}    `json:"samples"`
	Known       map[string]int64 `json:"known"`
}

func NewStats() *Stats {
	return &Stats{Faults: map[string]int64{}, Probes: map[string]int64{}, Distinct: map[uint64]bool{}, States: map[uint64]bool{}, Known: map[string]int64{}}
}

func (s *Stats) Fault(kind string) { s.Faults[kind]++ }

// SimSpanHook, when set (by the node package), returns and resets the simulated protocol time in ms
// covered since its last call.
var SimSpanHook func() int64

func (s *Stats) Probe(name string)        { s.Probes[name]++ }
func (s *Stats) ProbeN(n string, k int64) { s.Probes[n] += k }
func (s *Stats) Nontrivial(key uint64)    { s.Distinct[key] = true }
func (s *Stats) State(key uint64) {
	if len(s.States) < 2000000 {
		s.States[key] = true
	}
}
func (s *Stats) Sample(v interface{}) {
	if len(s.Samples) < 3 {
		s.Samples = append(s.Samples, v)
	}
}

func (s *Stats) Seal() {
	s.DistinctL = s.DistinctL[:0]
	for k := range s.Distinct {
		s.DistinctL = append(s.DistinctL, k)
	}
	sort.Slice(s.DistinctL, func(i, j int) bool { return s.DistinctL[i] < s.DistinctL[j] })
	s.StatesL = s.StatesL[:0]
	for k := range s.States {
		s.StatesL = append(s.StatesL, k)
	}
	sort.Slice(s.StatesL, func(i, j int) bool { return s.StatesL[i] < s.StatesL[j] })
}

func (s *Stats) Merge(o *Stats) {
	s.Evaluations += o.Evaluations
	s.Plans += o.Plans
	s.Ops += o.Ops
	s.SimTimeMs += o.SimTimeMs
	for k, v := range o.Faults {
		s.Faults[k] += v
	}
	for k, v := range o.Probes {
		s.Probes[k] += v
	}
	for k, v := range o.Known {
		s.Known[k] += v
	}
	for _, k := range o.DistinctL {
		s.Distinct[k] = true
	}
	for k := range o.Distinct {
		s.Distinct[k] = true
	}
	for _, k := range o.StatesL {
		s.States[k] = true
	}
	for k := range o.States {
		s.States[k] = true
	}
	for _, x := range o.Samples {
		s.Sample(x)
	}
}

// Log is the per-run event log: deterministic text, never reads a clock or the PRNG.
type Log struct {
	Lines []string
	Cap   int
}

func (l *Log) Add(format string, a ...interface{}) {
	if l == nil {
		return
	}
	if l.Cap > 0 && len(l.Lines) >= l.Cap {
		return
	}
	l.Lines = append(l.Lines, fmt.Sprintf(format, a...))
}

func (l *Log) Hash() uint64 {
	h := uint64(1469598103934665603)
	for _, s := range l.Lines {
		h = Mix(h, HashString(s))
	}
	return h
}

func JSON(v interface{}) string {
	b, _ := json.Marshal(v)
	return string(b)
}
