//go:build verif
// +build verif

package mysql

// SimWipe empties the second store (contract logs, group index) so that every node
// incarnation of the simulator starts it empty; the node rebuilds what it needs.
// (Deleting the sqlite files under a live WAL connection can SIGBUS.)
func SimWipe() {
	if mysqlDBLog == nil {
		return
	}
	mysqlDBLog.Exec("DELETE FROM groupIndex")
	mysqlDBLog.Exec("DELETE FROM contractlogs")
}
