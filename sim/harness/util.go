package harness

import (
	"math/big"

	"com.tuntun.rangers/node/src/common"
	"golang.org/x/crypto/sha3"
)

type bigInt = big.Int

var emptyCodeHashC03 = common.BytesToHash(func() []byte { h := sha3.Sum256(nil); return h[:] }())
