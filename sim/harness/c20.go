package harness

import (
	"bytes"
	"com.tuntun.rangers/node/src/consensus/access"
	"com.tuntun.rangers/node/src/consensus/groupsig"
	"encoding/json"
	"fmt"
	"math"
	"math/big"
	"regexp"
	"sort"
	"strconv"
	"strings"
	"time"

	"com.tuntun.rangers/node/src/common"
	"com.tuntun.rangers/node/src/middleware"
	"com.tuntun.rangers/node/src/middleware/types"
	"com.tuntun.rangers/node/src/service"
	"com.tuntun.rangers/node/src/storage/account"
	"com.tuntun.rangers/node/src/zzverif/node"
	"com.tuntun.rangers/node/src/zzverif/runner"
	"com.tuntun.rangers/node/src/zzverif/simdisk"
	"com.tuntun.rangers/node/src/zzverif/simmap"
	"com.tuntun.rangers/node/src/zzverif/simrt"
)

// C20 — miner registry and stake accounting agree with the applied miner transactions.
//
// Simulated system: a booted real node; blocks of miner-management transactions
// (interleaved with transfers) are executed by the real block executor on successive
// committed states, at plan-chosen heights (so escrow release heights are reached),
// under a seeded map order, with restarts between blocks. The reference ledger
// observes each receipt's status and applies the transaction's declared effect; it
// only rules on what the statement rules on (one miner per account, no refund above
// the stake).

type c20Block struct {
	Jump    int           `json:"jump,omitempty"` // 0 next height; k>0: jump to the k-th pending escrow release height
	Txs     []node.TxSpec `json:"txs"`
	Restart bool          `json:"restart,omitempty"`
}

type c20Plan struct {
	Seed   uint64     `json:"seed"`
	Forks  string     `json:"forks"`
	Blocks []c20Block `json:"blocks"`
	// Dual: the parent state holds one node id in BOTH registries (as a genesis whose proposer is also on the
	// validator list produces: InsertMiner only looks at the registry of the record's own type)
	Dual bool `json:"dual,omitempty"`
}

type c20 struct{}

func init() { runner.Register(c20{}) }

func (c20) ID() string    { return "C20" }
func (c20) Level() string { return "exploration" }

func (c20) Budget(tier string) runner.Budget {
	if tier == "thorough" {
		return runner.Budget{Plans: 30000, PlansPerProc: 15, Wall: 14 * time.Minute}
	}
	return runner.Budget{Plans: 8000, PlansPerProc: 30, Wall: 45 * time.Second}
}

func (c20) Describe() runner.Description {
	return runner.Description{
		Rule:        "each plan: 2..14 blocks (mostly one transaction per block, some with 2-4) of miner apply (validator/proposer; stake below/at/above minimum; id already registered; account already controlling a miner of either type), add-stake (own/other/unknown miner, insufficient balance), refund (part, all, MaxUint64, more than stake, by non-owner, below minimum), change-account (free/occupied target), interleaved with transfers; heights advance by one or jump to a pending escrow release height; restarts between blocks; seeded map order. After every block, on the committed state: lookup by id (two ways), by account and by iteration return the ledger's record (stake = applied + added - refunded, account, type); totals used for leader election equal the sum over active records; no account controls two miners; liquid balances moved by exactly released escrow minus stake locked; refund escrow grew by exactly the refunded amount; and a block whose only transaction was rejected leaves everything but fee/nonce of the sender as in a twin execution without it. distinct_nontrivial = distinct (tx kind, accepted/rejected) sequences containing at least one accepted and one rejected miner transaction.",
		Assumptions: []string{"the ledger does not predict acceptance (minimum stakes, status transitions are the implementation's); it observes receipts and rules only on double control of an account and refunds above the stake", "the sender's nonce bump of a failed transaction is transaction bookkeeping, not registry/stake accounting"},
		Real:        []string{"executor (miner apply/add/refund/change-account, operator)", "service MinerManager / RefundManager / RewardCalculator", "core/vmexecutor", "storage/account + trie on goleveldb over simulated storage"},
		Stub:        []string{"ConsensusHelper", "network", "NTP clock"},
		FaultKinds:  []string{"map_order_seed", "restart_between_blocks", "height_jump_to_escrow_release", "node_id_in_both_registries", "reward_release_height"},
	}
}

func c20GenTx(r *simrt.Rand, i int) node.TxSpec {
	s := node.TxSpec{From: 4 + r.Intn(4), Salt: fmt.Sprintf("m%d", i)}
	if r.Chance(0.15) {
		s.From = r.Intn(4)
	}
	own := s.From - 4 // account k mostly manages miner k, so that add-stake / refund / change-account find a registered miner
	if own < 0 {
		own = r.Intn(4)
	}
	pick := func() int {
		if r.Chance(0.6) {
			return own
		}
		return r.Intn(4)
	}
	switch x := r.Intn(100); {
	case x < 38:
		s.K = "apply"
		s.Miner = pick()
		s.MType = byte(r.Intn(2))
		s.Stake = []uint64{100, 399, 400, 401, 800, 1999, 2000, 2400}[r.Intn(8)]
		if r.Chance(0.35) {
			s.Acct = 1 + r.Intn(8) // explicit account (may already control a miner)
		}
	case x < 55:
		s.K = "addstake"
		s.Miner = pick()
		if r.Chance(0.1) {
			s.Miner = 4 // never registered
		}
		s.Stake = uint64([]int{0, 1, 50, 400, 1600, 100000}[r.Intn(6)])
	case x < 78:
		s.K = "refund"
		s.Miner = pick()
		s.Amount = []string{"1", "100", "400", "401", "2000", "18446744073709551615", "999999", "0"}[r.Intn(8)]
		if r.Chance(0.12) {
			s.Omit = []string{"Amount", "MinerId"}[r.Intn(2)]
		}
	case x < 81:
		s.K = "node"
	case x < 88:
		s.K = "chacct"
		s.Miner = pick()
		s.Acct = r.Intn(8)
	default:
		s.K = "xfer"
		s.Targets = []node.Target{{A: node.Account(r.Intn(8)), V: fmt.Sprintf("%d", r.Range(1, 500))}}
	}
	return s
}

func (c20) Gen(seed uint64, tier string) json.RawMessage {
	r := simrt.NewRand(seed)
	p := c20Plan{Seed: seed, Forks: string(node.ForksLatestSync)}
	if r.Chance(0.25) {
		p.Forks = string(node.ForksDevLike)
	}
	nb := r.Range(2, 8)
	if r.Chance(0.3) {
		nb = r.Range(9, 14)
	}
	k := 0
	if r.Chance(0.06) {
		p.Dual = true
		p.Blocks = append(p.Blocks,
			c20Block{Txs: []node.TxSpec{{K: "addstake", From: 7, Miner: 3, Stake: uint64(r.Range(100, 900)), Salt: "du-s"}}},
			c20Block{Txs: []node.TxSpec{{K: "refund", From: 7, Miner: 3, Amount: []string{"100", "500", "550"}[r.Intn(3)], Salt: "du-r"}}})
	}
	if r.Chance(0.15) {
		// a miner that a partial refund leaves dismissed with some stake still recorded, then touched again by
		// its owner (change of account / further refund / add-stake), each transaction alone in its block
		mi := r.Intn(4)
		typ := byte(r.Intn(2))
		stake, out := uint64(800), "500"
		if typ == common.MinerTypeProposer {
			stake, out = 2400, "1000"
		}
		p.Blocks = append(p.Blocks,
			c20Block{Txs: []node.TxSpec{{K: "apply", From: 4 + mi, Miner: mi, MType: typ, Stake: stake, Salt: "dm-a"}}},
			c20Block{Txs: []node.TxSpec{{K: "refund", From: 4 + mi, Miner: mi, Amount: out, Salt: "dm-r"}}})
		switch r.Intn(3) {
		case 0:
			p.Blocks = append(p.Blocks, c20Block{Txs: []node.TxSpec{{K: "chacct", From: 4 + mi, Miner: mi, Acct: r.Intn(8), Salt: "dm-c"}}})
		case 1:
			p.Blocks = append(p.Blocks, c20Block{Txs: []node.TxSpec{{K: "refund", From: 4 + mi, Miner: mi, Amount: "100", Salt: "dm-r2"}}})
		default:
			p.Blocks = append(p.Blocks, c20Block{Txs: []node.TxSpec{{K: "addstake", From: 4 + mi, Miner: mi, Stake: 50, Salt: "dm-s"}}})
		}
	}
	for b := 0; b < nb; b++ {
		blk := c20Block{Restart: r.Chance(0.1)}
		if r.Chance(0.15) {
			blk.Jump = r.Range(1, 2)
		}
		n := 1
		if r.Chance(0.25) {
			n = r.Range(2, 4)
		}
		for j := 0; j < n; j++ {
			blk.Txs = append(blk.Txs, c20GenTx(r, k))
			k++
		}
		p.Blocks = append(p.Blocks, blk)
	}
	if p.Dual {
		// the twin records of the dual id are only touched by the two scripted transactions: once one twin is
		// dismissed or removed the other becomes "the" miner of that id, which the one-record ledger does not model
		for bi := range p.Blocks {
			for ti := range p.Blocks[bi].Txs {
				t := &p.Blocks[bi].Txs[ti]
				if t.Miner == 3 && !strings.HasPrefix(t.Salt, "du-") {
					t.Miner = 2
				}
			}
		}
	}
	b, _ := json.Marshal(p)
	return b
}

type c20Miner struct {
	typ     byte
	account string
	stake   uint64
	genesis bool
	block   int // block index in which the account binding was last written
}

var c20HeightRe = regexp.MustCompile(`height: (\d+), money: (\d+)`)

func c20Obs(st *account.AccountDB, ids [][]byte, h uint64, addrs []common.Address, skip map[common.Address]bool) []string {
	var o []string
	mm := service.MinerManagerImpl
	for _, id := range ids {
		m := mm.GetMiner(id, st)
		if m == nil {
			o = append(o, fmt.Sprintf("miner %x: none", id[:4]))
		} else {
			o = append(o, fmt.Sprintf("miner %x: type=%d stake=%d account=%x status=%d apply=%d", id[:4], m.Type, m.Stake, []byte(m.Account), m.Status, m.ApplyHeight))
		}
	}
	for t := byte(0); t < 2; t++ {
		var l []string
		for _, m := range service.SimMinerIterate(t, st) {
			l = append(l, fmt.Sprintf("%x/%d/%x/%d", []byte(m.Id)[:4], m.Stake, []byte(m.Account), m.Status))
		}
		sort.Strings(l)
		o = append(o, fmt.Sprintf("iter%d=%s", t, strings.Join(l, ",")))
	}
	for _, a := range addrs {
		if skip[a] {
			continue
		}
		o = append(o, fmt.Sprintf("bal %x=%s nonce=%d", a.Bytes()[:4], st.GetBalance(a).String(), st.GetNonce(a)))
	}
	return o
}

func (c20) Exec(raw json.RawMessage, st *simrt.Stats, log *simrt.Log) *simrt.Violation {
	var p c20Plan
	if err := json.Unmarshal(raw, &p); err != nil {
		panic(runner.InfraError{Msg: "bad plan: " + err.Error()})
	}
	simmap.Seed = 0
	forks := node.Forks(p.Forks)
	disk := simdisk.NewDisk()
	n := node.Boot(disk, forks, false)
	bootCount, rdBoot := 1, 0
	var rd *access.MinerPoolReader
	// setup through the chain: fund the harness accounts
	var fund []*types.Transaction
	for i := 4; i < 8; i++ {
		fund = append(fund, node.TransferTx(node.Funded[0], 0, map[string]string{node.Account(i): "9000"}, fmt.Sprintf("fund%d", i)))
	}
	blk, err := n.CastBlock(node.BlockSpec{QN: 1, PV: 1, TimeMs: 1000, Txs: fund})
	if err != nil || n.Chain.AddBlockOnChain(node.CloneBlock(blk)) != types.AddBlockSucc {
		panic(runner.InfraError{Msg: fmt.Sprintf("C20 setup failed: %v", err)})
	}
	simmap.Seed = simrt.Mix(p.Seed, 0x6d6170) | 1
	st.Fault("map_order_seed")
	ec := newExecChain(n)
	viol := func(ev int, clause, where, f string, a ...interface{}) *simrt.Violation {
		return simrt.Violationf("C20", clause, where, ev, f, a...)
	}

	if p.Dual {
		common.SetBlockHeight(ec.height)
		s0 := ec.state()
		acc := common.FromHex(node.Account(7))
		for _, rec := range []*types.Miner{
			{Id: node.MinerID(3), Type: common.MinerTypeValidator, Stake: 600, Account: acc, PublicKey: []byte{1, 2, 3, 3}, VrfPublicKey: []byte{4, 5, 6, 3}, Status: common.MinerStatusNormal},
			{Id: node.MinerID(3), Type: common.MinerTypeProposer, Stake: 3000, Account: acc, PublicKey: []byte{1, 2, 3, 3}, VrfPublicKey: []byte{4, 5, 6, 3}, Status: common.MinerStatusNormal},
		} {
			service.MinerManagerImpl.InsertMiner(rec, s0)
		}
		root, err := s0.Commit(true)
		if err == nil {
			err = middleware.AccountDBManagerInstance.GetTrieDB().Commit(root, false)
		}
		if err != nil {
			panic(runner.InfraError{Msg: "c20 dual-registry setup: " + err.Error()})
		}
		ec.root = root
		st.Fault("node_id_in_both_registries")
	}
	// ledger, initialised by observing the genesis registry
	led := map[string]*c20Miner{}
	var ids [][]byte
	for i := 0; i < 5; i++ {
		ids = append(ids, node.MinerID(i))
	}
	{
		s0 := ec.state()
		for t := byte(0); t < 2; t++ {
			for _, m := range service.SimMinerIterate(t, s0) {
				led[common.ToHex(m.Id)] = &c20Miner{typ: m.Type, account: strings.ToLower(common.ToHex(m.Account)), stake: m.Stake, genesis: true, block: -1}
				ids = append(ids, append([]byte{}, m.Id...))
			}
		}
	}
	universe := map[common.Address]bool{common.FeeAccount: true}
	for i := 0; i < 8; i++ {
		universe[common.HexToAddress(node.Account(i))] = true
	}
	for _, m := range led {
		universe[common.HexToAddress(m.account)] = true
	}
	escrowHeights := map[uint64]bool{}
	rewardBlocks := common.GetRewardBlocks()
	seq := ""
	accepted, rejected := 0, 0
	escrowAt := func(s *account.AccountDB, h uint64) (map[common.Address]*big.Int, *big.Int) {
		m := s.GetAllRefund(service.SimRefundAddress(h))
		sum := new(big.Int)
		for _, v := range m {
			sum.Add(sum, v)
		}
		return m, sum
	}

	for bi, b := range p.Blocks {
		st.Ops++
		if b.Restart {
			n = node.Boot(disk, forks, false)
			bootCount++
			ec.n = n
			simmap.Seed = simrt.Mix(p.Seed, 0x6d6170) | 1
			st.Fault("restart_between_blocks")
		}
		height := ec.height + 1
		if b.Jump > 0 && len(escrowHeights) > 0 {
			var hs []uint64
			for h := range escrowHeights {
				if h > ec.height {
					hs = append(hs, h)
				}
			}
			sort.Slice(hs, func(i, j int) bool { return hs[i] < hs[j] })
			if len(hs) > 0 {
				height = hs[(b.Jump-1)%len(hs)]
				st.Fault("height_jump_to_escrow_release")
			}
		}
		var txs []*types.Transaction
		for _, s := range b.Txs {
			txs = append(txs, s.Build())
		}
		// before: released escrow at this height, balances, refund escrow
		pre := ec.state()
		released, releasedSum := escrowAt(pre, height)
		for a := range released {
			universe[a] = true
		}
		var addrs []common.Address
		for a := range universe {
			addrs = append(addrs, a)
		}
		sort.Slice(addrs, func(i, j int) bool { return bytes.Compare(addrs[i].Bytes(), addrs[j].Bytes()) < 0 })
		Lbefore, _, sv := ec.sumBalances(addrs)
		if sv != nil {
			return viol(bi, sv.clause, "before-block", "%s", sv.detail)
		}
		escBefore := map[uint64]*big.Int{}
		for h := range escrowHeights {
			if h != height {
				_, s := escrowAt(pre, h)
				escBefore[h] = s
			}
		}
		parentRoot := ec.root
		receipts, executed, _, _ := ec.execBlock(height, txs, true)
		post := ec.state()
		log.Add("block %d height=%d txs=%d executed=%d released=%s", bi, height, len(txs), len(executed), releasedSum.String())

		// ledger: observe receipts
		locked := new(big.Int)
		refundedAt := map[uint64]*big.Int{}
		refundAccts := map[uint64]map[string]bool{} // distinct beneficiaries per release height in this block
		specOf := map[common.Hash]node.TxSpec{}
		for i, t := range txs {
			specOf[t.Hash] = b.Txs[i]
		}
		for i, rc := range receipts {
			s := specOf[rc.TxHash]
			ok := rc.Status == types.ReceiptStatusSuccessful
			if s.K != "xfer" {
				if ok {
					accepted++
					seq += s.K[:2] + "+"
				} else {
					rejected++
					seq += s.K[:2] + "-"
				}
			}
			log.Add("  tx %d %s from=%d miner=%d ok=%v msg=%s", i, s.K, s.From, s.Miner, ok, rc.Msg)
			if !ok {
				continue
			}
			id := common.ToHex(node.MinerID(s.Miner))
			src := strings.ToLower(node.Account(s.From))
			switch s.K {
			case "apply":
				acc := src
				if s.Acct > 0 {
					acc = strings.ToLower(node.Account(s.Acct - 1))
				}
				for oid, m := range led {
					if m.account == acc && m.stake > 0 { // a fully refunded miner controls nothing (it is removed or about to be)
						where := "apply"
						if m.block == bi && !m.genesis {
							// the registry's by-account check iterates committed storage only
							where = "apply-after-binding-in-same-block"
						}
						return viol(bi, "account-controls-two-miners", where, "apply of miner %s for account %s accepted although that account already controls miner %s", id[:10], acc, oid[:10])
					}
				}
				led[id] = &c20Miner{typ: s.MType, account: acc, stake: s.Stake, block: bi}
				universe[common.HexToAddress(acc)] = true
				locked.Add(locked, tokens(s.Stake))
			case "addstake":
				if m := led[id]; m != nil {
					m.stake += s.Stake
					locked.Add(locked, tokens(s.Stake))
				} else if s.Stake > 0 {
					return viol(bi, "stake-added-to-unknown-miner", "addstake", "add-stake of %d for unregistered miner %s accepted", s.Stake, id[:10])
				}
			case "refund":
				if s.Omit != "" {
					return viol(bi, "malformed-transaction-accepted", "refund", "refund whose payload has no %s field accepted: %s", s.Omit, rc.Msg)
				}
				m := led[id]
				if m == nil {
					return viol(bi, "refund-for-unknown-miner", "refund", "refund for unregistered miner %s accepted", id[:10])
				}
				amt, _ := strconv.ParseUint(s.Amount, 10, 64)
				if amt == math.MaxUint64 {
					amt = m.stake
				}
				if amt > m.stake {
					return viol(bi, "refund-exceeds-stake", "refund", "refund of %d accepted for miner %s whose recorded stake is %d", amt, id[:10], m.stake)
				}
				m.stake -= amt
				if mt := c20HeightRe.FindStringSubmatch(rc.Msg); mt != nil {
					h, _ := strconv.ParseUint(mt[1], 10, 64)
					escrowHeights[h] = true
					if refundedAt[h] == nil {
						refundedAt[h] = new(big.Int)
					}
					refundedAt[h].Add(refundedAt[h], tokens(amt))
					if refundAccts[h] == nil {
						refundAccts[h] = map[string]bool{}
					}
					refundAccts[h][m.account] = true
				}
			case "chacct":
				acc := strings.ToLower(node.Account(s.Acct))
				for oid, m := range led {
					if m.account == acc && oid != id && m.stake > 0 {
						where := "change-account"
						if m.block == bi && !m.genesis {
							where = "change-account-after-binding-in-same-block"
						}
						return viol(bi, "account-controls-two-miners", where, "change-account of miner %s to %s accepted although that account already controls miner %s", id[:10], acc, oid[:10])
					}
				}
				if m := led[id]; m != nil {
					m.account = acc
					m.block = bi
					universe[common.HexToAddress(acc)] = true
					// a change of account changes the account and nothing else of the record (judged when the
					// transaction stands alone in its block)
					if pst, err := middleware.AccountDBManagerInstance.GetAccountDBByHash(parentRoot); err == nil && len(txs) == 1 {
						before := service.MinerManagerImpl.GetMinerById(common.FromHex(id), m.typ, pst)
						after := service.MinerManagerImpl.GetMinerById(common.FromHex(id), m.typ, post)
						if before != nil && after != nil && (before.Status != after.Status || before.Stake != after.Stake || before.Type != after.Type || before.ApplyHeight != after.ApplyHeight) {
							return viol(bi, "record-changed-by-account-change", "change-account", "change-account of miner %s: status %d -> %d, stake %d -> %d, type %d -> %d, apply height %d -> %d", id[:10], before.Status, after.Status, before.Stake, after.Stake, before.Type, after.Type, before.ApplyHeight, after.ApplyHeight)
						}
						st.Probe("change_account_record_compared")
					}
				}
			}
		}

		// registry agrees with the ledger on the committed state, by every lookup path
		mm := service.MinerManagerImpl
		iter := map[byte][]*types.Miner{0: service.SimMinerIterate(0, post), 1: service.SimMinerIterate(1, post)}
		for id, m := range led {
			idb := common.FromHex(id)
			got := mm.GetMiner(idb, post)
			if got == nil {
				if m.stake == 0 {
					delete(led, id) // fully refunded and removed
					continue
				}
				return viol(bi, "registry-record-missing", "by-id", "miner %s (ledger stake %d) is not found by id", id[:10], m.stake)
			}
			if got.Stake != m.stake {
				return viol(bi, "stake-mismatch", "by-id", "miner %s: registry stake %d, applied+added-refunded = %d", id[:10], got.Stake, m.stake)
			}
			if strings.ToLower(common.ToHex(got.Account)) != m.account || got.Type != m.typ {
				return viol(bi, "record-mismatch", "by-id", "miner %s: registry account %x type %d, ledger account %s type %d", id[:10], []byte(got.Account), got.Type, m.account, m.typ)
			}
			byType := mm.GetMinerById(idb, m.typ, post)
			if byType == nil || byType.Stake != got.Stake || !bytes.Equal(byType.Account, got.Account) {
				return viol(bi, "lookup-paths-disagree", "by-id-and-type", "miner %s: GetMiner and GetMinerById disagree", id[:10])
			}
			if other := mm.GetMinerById(idb, 1-m.typ, post); other != nil && !(p.Dual && id == common.ToHex(node.MinerID(3))) {
				return viol(bi, "lookup-paths-disagree", "registered-under-both-types", "miner %s is registered under both miner types", id[:10])
			}
			byAcc := mm.GetMinerIdByAccount(common.FromHex(m.account), post)
			if m.genesis {
				// the dev genesis itself registers two proposers under one account: not produced by transactions
				if byAcc == nil {
					return viol(bi, "lookup-paths-disagree", "by-account", "genesis account %s controls miner %s but lookup by account returns nothing", m.account, id[:10])
				}
			} else if byAcc == nil || common.ToHex(byAcc) != id {
				// another ledger miner with the same account would already have been flagged
				return viol(bi, "lookup-paths-disagree", "by-account", "account %s controls miner %s but lookup by account returns %x", m.account, id[:10], []byte(byAcc))
			}
			cnt := 0
			for _, im := range iter[m.typ] {
				if common.ToHex(im.Id) == id {
					cnt++
					if im.Stake != m.stake || strings.ToLower(common.ToHex(im.Account)) != m.account {
						return viol(bi, "lookup-paths-disagree", "by-iteration", "miner %s: iteration yields stake %d account %x, ledger %d %s", id[:10], im.Stake, []byte(im.Account), m.stake, m.account)
					}
				}
			}
			if cnt != 1 {
				return viol(bi, "lookup-paths-disagree", "by-iteration", "miner %s appears %d times when iterating the registry", id[:10], cnt)
			}
		}
		for t := byte(0); t < 2; t++ {
			for _, im := range iter[t] {
				if _, ok := led[common.ToHex(im.Id)]; !ok && im.Stake > 0 {
					return viol(bi, "registry-has-unknown-miner", "by-iteration", "iteration yields miner %x (stake %d) that no accepted transaction registered", []byte(im.Id)[:4], im.Stake)
				}
			}
		}
		// one miner per account
		seen := map[string]string{}
		for id, m := range led {
			if m.genesis || m.stake == 0 {
				continue
			}
			if o, dup := seen[m.account]; dup {
				return viol(bi, "account-controls-two-miners", "ledger", "account %s controls miners %s and %s", m.account, o[:10], id[:10])
			}
			seen[m.account] = id
		}
		// totals used for leader election = sum over active records
		total, detail := mm.GetProposerTotalStakeWithDetail(height, post)
		exp := uint64(0)
		expN := 0
		for id, m := range led {
			if m.typ != common.MinerTypeProposer {
				continue
			}
			rec := mm.GetMinerById(common.FromHex(id), m.typ, post)
			if rec != nil && rec.Status == common.MinerStatusNormal && height >= rec.ApplyHeight {
				exp += m.stake
				expN++
			}
		}
		if total != exp || len(detail) != expN {
			return viol(bi, "total-stake-mismatch", "proposers", "GetProposerTotalStakeWithDetail = %d over %d proposers, sum over active ledger records = %d over %d", total, len(detail), exp, expN)
		}
		// the same figures through the reader the consensus layer uses (by state root)
		if rd == nil || rdBoot != bootCount {
			rd, rdBoot = access.SimNewMinerPoolReader(), bootCount // one reader per incarnation, as in the node
		}
		if got := rd.GetTotalStake(height, ec.root); got != uint64(expN) {
			return viol(bi, "total-stake-mismatch", "consensus-reader-proposer-count", "MinerPoolReader.GetTotalStake (number of counted proposers) = %d, active proposer records in the ledger: %d", got, expN)
		}
		// the same height asked for ANOTHER state (the parent's: what a competing block of this height would
		// be built on): the answer must follow the state root, not the height
		if pst, err := middleware.AccountDBManagerInstance.GetAccountDBByHash(parentRoot); err == nil {
			_, pdetail := mm.GetProposerTotalStakeWithDetail(height, pst)
			if got := rd.GetTotalStake(height, parentRoot); got != uint64(len(pdetail)) {
				return viol(bi, "total-stake-mismatch", "consensus-reader-other-state-same-height", "MinerPoolReader.GetTotalStake(height %d, parent state) = %d, the miner manager counts %d proposers on that state (%d on the block's own state)", height, got, len(pdetail), expN)
			}
		}
		for id, m := range led {
			if m.typ != common.MinerTypeProposer || m.genesis {
				continue
			}
			mi := rd.GetProposeMiner(groupsig.DeserializeID(common.FromHex(id)), ec.root)
			rec := mm.GetMinerById(common.FromHex(id), m.typ, post)
			if (mi == nil) != (rec == nil) || (mi != nil && (mi.Stake != m.stake || mi.MinerType != m.typ)) {
				return viol(bi, "record-mismatch", "consensus-reader", "MinerPoolReader.GetProposeMiner(%s) disagrees with the ledger (stake %d)", id[:10], m.stake)
			}
		}
		// conservation: liquid moved by released escrow minus locked stake
		for a := range universe {
			found := false
			for _, x := range addrs {
				if x == a {
					found = true
				}
			}
			if !found {
				addrs = append(addrs, a)
			}
		}
		// re-measure "before" on the enlarged universe from the parent root
		save := ec.root
		ec.root = parentRoot
		Lbefore, _, _ = ec.sumBalances(addrs)
		ec.root = save
		Lafter, _, sv := ec.sumBalances(addrs)
		if sv != nil {
			return viol(bi, sv.clause, "after-block", "%s", sv.detail)
		}
		want := new(big.Int).Add(Lbefore, releasedSum)
		want.Sub(want, locked)
		if Lafter.Cmp(want) != 0 {
			d := new(big.Int).Sub(Lafter, want)
			return viol(bi, "liquid-balance-not-conserved", "block", "liquid balances after block %d (height %d) differ by %s from before + released escrow (%s) - stake locked (%s)", bi, height, d.String(), releasedSum.String(), locked.String())
		}
		// refund escrow grew by exactly the refunded amounts
		for h, amt := range refundedAt {
			if h == height || (rewardBlocks > 0 && h%rewardBlocks == 0) {
				st.Probe("escrow_height_shared_with_rewards")
				continue
			}
			_, after := escrowAt(post, h)
			before := escBefore[h]
			if before == nil {
				before = new(big.Int)
			}
			if grew := new(big.Int).Sub(after, before); grew.Cmp(amt) != 0 {
				where := "refund"
				if len(refundAccts[h]) >= 2 && grew.Sign() >= 0 && grew.Cmp(amt) < 0 {
					// several beneficiaries scheduled to one release height within one block
					where = "later-beneficiary-lost-same-height-same-block"
				}
				return viol(bi, "refund-escrow-mismatch", where, "escrow for height %d grew by %s, refunds accepted in this block amount to %s", h, new(big.Int).Sub(after, before).String(), amt.String())
			}
		}
		// a block whose only transaction was rejected changes nothing but fee/nonce of the sender
		if len(txs) == 1 && len(receipts) == 1 && receipts[0].Status != types.ReceiptStatusSuccessful && b.Txs[0].K != "xfer" {
			src := common.HexToAddress(node.Account(b.Txs[0].From))
			skip := map[common.Address]bool{src: true, common.FeeAccount: true}
			withObs := c20Obs(post, ids, height, addrs, skip)
			ec.root = parentRoot
			ec.height = height - 1
			ec.execBlock(height, nil, true)
			twin := ec.state()
			twinObs := c20Obs(twin, ids, height, addrs, skip)
			for i := range withObs {
				if withObs[i] != twinObs[i] {
					return viol(bi, "rejected-tx-left-a-trace", b.Txs[0].K, "rejected %s: %s, without the transaction: %s", b.Txs[0].K, withObs[i], twinObs[i])
				}
			}
			dSrc := new(big.Int).Sub(twin.GetBalance(src), post.GetBalance(src))
			dFee := new(big.Int).Sub(post.GetBalance(common.FeeAccount), twin.GetBalance(common.FeeAccount))
			if dSrc.Cmp(dFee) != 0 || dSrc.Sign() < 0 {
				return viol(bi, "rejected-tx-left-a-trace", "fee", "rejected %s: sender lost %s, fee account gained %s", b.Txs[0].K, dSrc.String(), dFee.String())
			}
			ec.root, ec.height = save, height
			st.Probe("rejected_twin_checked")
		}
		st.Evaluations++
	}
	// reward-release height: every block schedules its reward into the escrow of the next reward height; at that
	// height the block adds its own reward to the same entries and pays everything out. Twin oracle (no reward
	// formula needed): the same empty block executed on the state as it is, and on a copy in which the escrow
	// entries of that height have already been paid out by hand, must leave every account with the same balance.
	if rb := common.GetRewardBlocks(); p.Seed%5 == 0 && rb > 0 {
		H := (ec.height/rb + 1) * rb
		raddr := service.SimRefundAddress(H)
		base := ec.root
		common.SetBlockHeight(ec.height)
		entries := ec.state().GetAllRefund(raddr)
		if len(entries) > 0 {
			s2 := ec.state()
			var keys []common.Address
			for a := range entries {
				keys = append(keys, a)
			}
			sort.Slice(keys, func(i, j int) bool { return bytes.Compare(keys[i].Bytes(), keys[j].Bytes()) < 0 })
			for _, a := range keys {
				s2.RemoveData(raddr, a.Bytes())
				s2.AddBalance(a, entries[a])
			}
			paid, err := s2.Commit(true)
			if err == nil {
				err = middleware.AccountDBManagerInstance.GetTrieDB().Commit(paid, false)
			}
			if err != nil {
				panic(runner.InfraError{Msg: "c20 reward twin: " + err.Error()})
			}
			h0 := ec.height
			ec.root, ec.height = base, h0
			ec.execBlock(H, nil, true)
			asIs := ec.state()
			ec.root, ec.height = paid, h0
			ec.execBlock(H, nil, true)
			twin := ec.state()
			st.Fault("reward_release_height")
			watch := append([]common.Address{}, keys...)
			for a := range universe {
				watch = append(watch, a)
			}
			for _, a := range watch {
				if x, y := asIs.GetBalance(a), twin.GetBalance(a); x.Cmp(y) != 0 {
					return viol(len(p.Blocks), "escrow-release-wrong", "reward-height", "block %d (a reward height): account %s ends with %s; on the same state with the %d escrow entries of that height paid out beforehand it ends with %s", H, a.GetHexString(), x.String(), len(entries), y.String())
				}
			}
			if left := asIs.GetAllRefund(raddr); len(left) != 0 {
				return viol(len(p.Blocks), "escrow-release-wrong", "entries-left", "block %d (a reward height) leaves %d entries in its own escrow", H, len(left))
			}
			st.Evaluations++
		}
	}
	st.State(simrt.HashString(seq))
	if accepted > 0 && rejected > 0 {
		st.Nontrivial(simrt.HashString(seq))
	}
	return nil
}

func (c20) Shrink(raw json.RawMessage) []json.RawMessage {
	var p c20Plan
	json.Unmarshal(raw, &p)
	var out []json.RawMessage
	emit := func(q c20Plan) {
		b, _ := json.Marshal(q)
		out = append(out, b)
	}
	for chunk := len(p.Blocks) / 2; chunk >= 1; chunk /= 2 {
		for s := 0; s+chunk <= len(p.Blocks); s += chunk {
			q := p
			q.Blocks = append(append([]c20Block{}, p.Blocks[:s]...), p.Blocks[s+chunk:]...)
			emit(q)
		}
	}
	for i, b := range p.Blocks {
		for j := range b.Txs {
			if len(b.Txs) > 1 {
				q := p
				q.Blocks = append([]c20Block{}, p.Blocks...)
				q.Blocks[i].Txs = append(append([]node.TxSpec{}, b.Txs[:j]...), b.Txs[j+1:]...)
				emit(q)
			}
		}
		if b.Restart || b.Jump != 0 {
			q := p
			q.Blocks = append([]c20Block{}, p.Blocks...)
			q.Blocks[i].Restart, q.Blocks[i].Jump = false, 0
			emit(q)
		}
	}
	return out
}
