//go:build verif
// +build verif

package core

// In-package driver for the deterministic simulator (injected by Go -overlay at
// build time from /verif/overlay; never part of /repo). It only wraps unexported
// operations the properties name; it adds no behaviour of its own.

import (
	"strconv"

	"com.tuntun.rangers/node/src/common"
	"com.tuntun.rangers/node/src/executor"
	"com.tuntun.rangers/node/src/middleware/log"
	"com.tuntun.rangers/node/src/middleware/types"
	"com.tuntun.rangers/node/src/service"
	"com.tuntun.rangers/node/src/storage/account"
)

// SimReset forgets the chain singletons of the previous node incarnation.
func SimReset() {
	blockChainImpl = nil
	groupChainImpl = nil
	SyncProcessor = nil
}

// SimInit does what InitCore does, minus peer manager, sync processor (timers,
// network loops) and - unless withHandlers - the network message handlers.
func SimInit(helper types.ConsensusHelper, withHandlers bool) error {
	idx := strconv.Itoa(common.InstanceIndex)
	logger = log.GetLoggerByIndex(log.CoreLogConfig, idx)
	txLogger = log.GetLoggerByIndex(log.TxLogConfig, idx)
	syncLogger = log.GetLoggerByIndex(log.SyncLogConfig, idx)
	syncHandleLogger = log.GetLoggerByIndex(log.SyncHandleLogConfig, idx)
	rewardLog = log.GetLoggerByIndex(log.RewardLogConfig, idx)
	consensusHelper = helper
	if err := initBlockChain(); err != nil {
		return err
	}
	initGroupChain()
	executor.InitExecutors()
	service.InitRewardCalculator(blockChainImpl, groupChainImpl, simForkHelper{})
	service.InitRefundManager(groupChainImpl, simForkHelper{})
	if withHandlers {
		initChainHandler()
		initGameExecutor(blockChainImpl)
	}
	return nil
}

// simForkHelper stands in for the sync processor (only consulted in the "fork" situation).
type simForkHelper struct{}

func (simForkHelper) GetBlockHeader(height uint64) *types.BlockHeader {
	return blockChainImpl.QueryBlockHeaderByHeight(height, true)
}
func (simForkHelper) GetAvailableGroupsByMinerId(height uint64, minerId []byte) []*types.Group {
	return groupChainImpl.GetAvailableGroupsByMinerId(height, minerId)
}
func (simForkHelper) GetGroupById(id []byte) *types.Group { return groupChainImpl.GetGroupById(id) }

// SimExecuteBlock runs the block executor exactly as checkStates/runTransactions do.
func SimExecuteBlock(state *account.AccountDB, block *types.Block, situation string) (common.Hash, []common.Hash, []*types.Transaction, []*types.Receipt) {
	return newVMExecutor(state, block, situation).Execute()
}

// SimReceiptsTree exposes calcReceiptsTree.
func SimReceiptsTree(receipts types.Receipts) common.Hash { return calcReceiptsTree(receipts) }

// SimRemoveLastGroup performs the group-chain removal used when a group fork is switched.
func SimRemoveLastGroup() bool {
	groupChainImpl.lock.Lock()
	defer groupChainImpl.lock.Unlock()
	return groupChainImpl.remove(groupChainImpl.lastGroup)
}

// SimHeightIndexed reports whether the block height index has an entry for height (cache bypassed).
func SimHeightIndexed(height uint64) bool {
	v, _ := blockChainImpl.heightDB.Get(generateHeightKey(height))
	return v != nil
}

// SimMarks reports whether an add / remove intent mark is present.
func SimMarks() (add bool, remove bool) {
	a, _ := blockChainImpl.hashDB.Get([]byte(addBlockMark))
	r, _ := blockChainImpl.hashDB.Get([]byte(removeBlockMark))
	return a != nil, r != nil
}

// SimHeadRecord returns the persisted head record.
func SimHeadRecord() *types.BlockHeader {
	return blockChainImpl.QueryBlockHeaderByHeight([]byte(latestBlockKey), false)
}

// SimGroupRaw reads the raw height-index entry of the group chain.
func SimGroupRaw(height uint64) []byte {
	v, _ := groupChainImpl.groups.Get(generateKey(height))
	return v
}

// SimSyncMerge does with a chain piece fetched from a peer what the sync processor does with it
// (readyOnFork / triggerOnFork / tryTriggerOnChain): a fork store rooted at the common ancestor, every
// block verified and executed on the fork, then the fork merged into the chain if its weight allows,
// and the fork store destroyed. Returns how many blocks passed the fork's verification and whether the
// merge was attempted.
func SimSyncMerge(ancestor *types.Block, blocks []*types.Block) (verified int, tried bool) {
	chain := blockChainImpl
	fork := newBlockChainFork(*ancestor)
	for i, b := range blocks {
		fork.rcv(b, i == len(blocks)-1)
	}
	fork.triggerOnFork(nil)
	for _, b := range blocks {
		if fork.getBlockByHash(b.Header.Hash) != nil {
			verified++
		}
	}
	if fork.latestBlock.TotalQN >= chain.latestBlock.TotalQN {
		tried = true
		var paused uint64
		for i := 0; i < len(blocks)+2; i++ {
			if fork.triggerOnChain(chain) || paused == fork.current {
				break
			}
			paused = fork.current
		}
	}
	fork.destroy()
	return
}

// SimRemoveFromCommonAncestor is the group chain's own fork-switch removal (what groupChainFork.triggerOnChain
// calls): every group above the group at ancestorHeight is removed, top first.
func SimRemoveFromCommonAncestor(ancestorHeight uint64) bool {
	anc := groupChainImpl.GetGroupByHeight(ancestorHeight)
	if anc == nil {
		return false
	}
	groupChainImpl.removeFromCommonAncestor(anc)
	return true
}
