// Package simmap gives the instrumented build a seeded, replayable map iteration
// order. The instrumenter rewrites every `range` over a map in the anchored
// packages into a range over simmap.Keys(m, site): the keys in canonical order,
// permuted by a PRNG stream derived from (Seed, site, key set). Any order is a legal
// Go execution; here the order is a pure function of the plan.
package simmap

import (
	"fmt"
	"hash/fnv"
	"reflect"
	"sort"
	"sync"
	"sync/atomic"
)

// Seed selects the iteration orders of this run. 0 = canonical (sorted) order.
var Seed uint64

// Calls counts instrumented iterations (reach measurement).
var Calls uint64

func mix(a, b uint64) uint64 {
	z := a ^ (b * 0x9e3779b97f4a7c15)
	z += 0x9e3779b97f4a7c15
	z = (z ^ (z >> 30)) * 0xbf58476d1ce4e5b9
	z = (z ^ (z >> 27)) * 0x94d049bb133111eb
	return z ^ (z >> 31)
}

func hashStr(s string) uint64 {
	h := fnv.New64a()
	h.Write([]byte(s))
	return h.Sum64()
}

// keyString gives a canonical, address-free rendering of a map key.
func keyString(v reflect.Value) string {
	switch v.Kind() {
	case reflect.String:
		return v.String()
	case reflect.Int, reflect.Int8, reflect.Int16, reflect.Int32, reflect.Int64:
		return fmt.Sprintf("%020d", uint64(v.Int())^(1<<63))
	case reflect.Uint, reflect.Uint8, reflect.Uint16, reflect.Uint32, reflect.Uint64, reflect.Uintptr:
		return fmt.Sprintf("%020d", v.Uint())
	case reflect.Array:
		if v.Type().Elem().Kind() == reflect.Uint8 {
			b := make([]byte, v.Len())
			for i := range b {
				b[i] = byte(v.Index(i).Uint())
			}
			return string(b)
		}
	case reflect.Interface:
		if v.IsNil() {
			return ""
		}
		return keyString(v.Elem())
	case reflect.Ptr:
		// pointer keys have no address-free order; fall back to the pointee's rendering
		if v.IsNil() {
			return ""
		}
		return fmt.Sprintf("%v", v.Elem().Interface())
	}
	return fmt.Sprintf("%v", v.Interface())
}

func order(site string, strs []string) []int {
	idx := make([]int, len(strs))
	for i := range idx {
		idx[i] = i
	}
	sort.SliceStable(idx, func(a, b int) bool { return strs[idx[a]] < strs[idx[b]] })
	atomic.AddUint64(&Calls, 1)
	seed := atomic.LoadUint64(&Seed)
	if seed == 0 || len(idx) < 2 {
		return idx
	}
	s := mix(seed, hashStr(site))
	for _, i := range idx {
		s = mix(s, hashStr(strs[i]))
	}
	for i := len(idx) - 1; i > 0; i-- {
		s = mix(s, uint64(i))
		j := int(s % uint64(i+1))
		idx[i], idx[j] = idx[j], idx[i]
	}
	return idx
}

// Keys returns the keys of m in the run's seeded order for this site.
func Keys[K comparable, V any](m map[K]V, site string) []K {
	if len(m) == 0 {
		return nil
	}
	keys := make([]K, 0, len(m))
	strs := make([]string, 0, len(m))
	for k := range m {
		keys = append(keys, k)
		strs = append(strs, keyString(reflect.ValueOf(&k).Elem()))
	}
	out := make([]K, 0, len(keys))
	for _, i := range order(site, strs) {
		out = append(out, keys[i])
	}
	return out
}

// SyncMapRange is sync.Map.Range in the run's seeded order.
func SyncMapRange(m *sync.Map, site string, f func(key, value interface{}) bool) {
	var keys, vals []interface{}
	var strs []string
	m.Range(func(k, v interface{}) bool {
		keys = append(keys, k)
		vals = append(vals, v)
		strs = append(strs, keyString(reflect.ValueOf(&k).Elem()))
		return true
	})
	for _, i := range order(site, strs) {
		if !f(keys[i], vals[i]) {
			return
		}
	}
}
