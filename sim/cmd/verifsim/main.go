// verifsim: deterministic-simulation driver for the go-rangers properties.
//
//	verifsim check  -prop C02 -tier quick -seed N -verif /verif
//	verifsim worker ...   (internal)
//	verifsim exec   -prop C02 -plan file -out file
//	verifsim replay -file /verif/replays/x.json
//	verifsim selftest -prop C02 -n 30     (determinism: same plan twice, logs must be identical)
package main

import (
	"bytes"
	"encoding/json"
	"flag"
	"fmt"
	"io/ioutil"
	"os"
	"strconv"
	"time"

	_ "com.tuntun.rangers/node/src/zzverif/harness"
	"com.tuntun.rangers/node/src/zzverif/runner"
	"com.tuntun.rangers/node/src/zzverif/simrt"
	"com.tuntun.rangers/node/src/zzverif/simsched"
)

func main() {
	if len(os.Args) < 2 {
		fmt.Fprintln(os.Stderr, "usage: verifsim check|worker|exec|replay|selftest ...")
		os.Exit(2)
	}
	cmd := os.Args[1]
	fs := flag.NewFlagSet(cmd, flag.ExitOnError)
	prop := fs.String("prop", "", "property id")
	tier := fs.String("tier", "quick", "quick|thorough")
	seedS := fs.String("seed", "", "VERIF_SEED")
	verif := fs.String("verif", "/verif", "verif dir")
	from := fs.Int("from", 0, "")
	to := fs.Int("to", 0, "")
	out := fs.String("out", "", "")
	deadline := fs.Int64("deadline", 0, "")
	planF := fs.String("plan", "", "")
	file := fs.String("file", "", "")
	n := fs.Int("n", 30, "")
	plans := fs.Int("plans", 0, "override plan count")
	wall := fs.Duration("wall", 0, "override wall budget")
	procs := fs.Int("procs", 0, "worker processes")
	fs.Parse(os.Args[2:])

	seed := uint64(1)
	if *seedS == "" {
		*seedS = os.Getenv("VERIF_SEED")
	}
	if *seedS != "" {
		if v, err := strconv.ParseUint(*seedS, 10, 64); err == nil {
			seed = v
		} else if v, err := strconv.ParseInt(*seedS, 10, 64); err == nil {
			seed = uint64(v)
		} else {
			seed = simrt.HashString(*seedS)
		}
	}
	self, _ := os.Executable()

	switch cmd {
	case "check":
		h := need(*prop)
		os.Exit(runner.Check(h, runner.Options{Tier: *tier, Seed: seed, VerifDir: *verif, Self: self, PlansOver: *plans, WallOver: *wall, Procs: *procs}))
	case "worker":
		h := need(*prop)
		known := runner.LoadKnown(*verif + "/known_findings.json")
		res := runner.RunWorker(h, *tier, seed, *from, *to, time.Unix(0, *deadline), known)
		b, _ := json.Marshal(res)
		if err := ioutil.WriteFile(*out, b, 0o644); err != nil {
			fmt.Fprintln(os.Stderr, err)
			os.Exit(2)
		}
	case "exec":
		h := need(*prop)
		pb, err := ioutil.ReadFile(*planF)
		if err != nil {
			fmt.Fprintln(os.Stderr, err)
			os.Exit(2)
		}
		res := runner.ExecOne(h, pb)
		b, _ := json.Marshal(res)
		ioutil.WriteFile(*out, b, 0o644)
	case "replay":
		os.Exit(runner.Replay(*file, *verif))
	case "selftest":
		h := need(*prop)
		os.Exit(runner.SelfTest(h, *tier, seed, *n))
	case "racerun":
		// executes N concurrent C17 plans in this process; meant for the -race + simrace build, whose
		// reports go to stderr between the RACEPLAN markers printed here
		id := *prop
		if id == "" {
			id = "C17"
		}
		h := need(id)
		rh, ok := h.(runner.RaceHarness)
		if !ok {
			fmt.Fprintf(os.Stderr, "%s has no race stage\n", id)
			os.Exit(2)
		}
		fr, _ := json.Marshal(rh.RaceFrames())
		fmt.Fprintf(os.Stderr, "RACEPROP %s\nRACEFRAMES %s\n", id, string(fr))
		if *planF != "" {
			// replay of one recorded plan under the race build
			pb, err := ioutil.ReadFile(*planF)
			if err != nil {
				fmt.Fprintln(os.Stderr, err)
				os.Exit(2)
			}
			var rf struct {
				Plan json.RawMessage `json:"plan"`
			}
			if json.Unmarshal(pb, &rf) == nil && len(rf.Plan) > 0 {
				pb = rf.Plan
			}
			fmt.Fprintf(os.Stderr, "RACEPLAN 0 %s\n", string(compact(pb)))
			runner.ExecOne(h, pb)
			fmt.Fprintf(os.Stderr, "RACEPLAN-END 1 racemode=%v\n", simsched.RaceMode)
			return
		}
		for i := 0; i < *n; i++ {
			plan := rh.RacePlan(seed, i)
			fmt.Fprintf(os.Stderr, "RACEPLAN %d %s\n", i, string(compact(plan)))
			res := runner.ExecOne(h, plan)
			fmt.Fprintf(os.Stderr, "RACEPLAN-STATS %d switches=%d ops=%d\n", i, res.Stats.Probes["task_switches"], res.Stats.Ops)
			if res.Violation != nil {
				fmt.Fprintf(os.Stderr, "RACEPLAN-VIOLATION %d %s\n", i, res.Violation.Class())
			}
		}
		fmt.Fprintf(os.Stderr, "RACEPLAN-END %d racemode=%v\n", *n, simsched.RaceMode)
	case "list":
		for _, id := range runner.IDs() {
			fmt.Println(id)
		}
	default:
		fmt.Fprintln(os.Stderr, "unknown command", cmd)
		os.Exit(2)
	}
}

func compact(b []byte) []byte {
	var buf bytes.Buffer
	if json.Compact(&buf, b) != nil {
		return b
	}
	return buf.Bytes()
}

func need(id string) runner.Harness {
	h := runner.Get(id)
	if h == nil {
		fmt.Fprintf(os.Stderr, "unknown property %q (have %v)\n", id, runner.IDs())
		os.Exit(2)
	}
	return h
}
