#!/usr/bin/env python3
"""Filters the race detector's reports of a `verifsim racerun` (race + simrace build) down to data
races of the code under test: the stacks of BOTH accesses must contain a frame of one of the
harness's RaceFrames packages (printed by racerun as `RACEFRAMES [...]`), reached from a scheduler
task, and neither access itself may be harness or scheduler code.
usage: racefilter.py <race.log> <replay-out.json>   -> prints summary; exit 1 if such a race remains,
2 if the log is not from a race-mode run."""
import json, re, sys
log, out = sys.argv[1], sys.argv[2]
txt = open(log, errors='replace').read()
plans = {}
cur = None
found = []
total = 0
racemode = 'racemode=true' in txt
m = re.search(r'^RACEPROP (\w+)$', txt, re.M)
prop = m.group(1) if m else "C17"
m = re.search(r'^RACEFRAMES (\[.*\])$', txt, re.M)
frames_wanted = json.loads(m.group(1)) if m else ["/src/service."]
# drivers compiled into the packages under test and logging internals are not the code under test
def is_target(f):
    if 'zzverif' in f or '.Sim' in f:
        return False
    return any(w in f for w in frames_wanted)
for m in re.finditer(r'^RACEPLAN (\d+) (\{[^\n]*\})$|WARNING: DATA RACE\n(.*?)\n==================', txt, re.S | re.M):
    if m.group(1) is not None:
        cur = int(m.group(1)); plans[cur] = m.group(2); continue
    total += 1
    body = m.group(3)
    blocks = [b for b in re.split(r'\n\n', body) if re.match(r'\s*(Read|Write|Previous read|Previous write|Atomic)', b.strip())]
    if len(blocks) < 2:
        continue
    ok = True
    tops = []
    for b in blocks[:2]:
        frames = re.findall(r'^\s+([\w./*()\[\]·-]+)\(\)\s*$', b, re.M)
        if not frames:
            ok = False; break
        nonrt = [f for f in frames if not f.startswith('runtime.') and not f.startswith('sync/atomic.') and not f.startswith('sync.')]
        top = nonrt[0] if nonrt else frames[0]
        if '/zzverif/' in top:
            ok = False; break
        tf = [f for f in frames if is_target(f)]
        if not tf:
            ok = False; break
        tops.append(tf[0].split('/src/')[-1])
    if ok:
        found.append((cur, ' <-> '.join(sorted(tops)), body))
print("race oracle: property=%s racemode=%s plans=%d reports=%d races_in_code_under_test=%d" % (prop, racemode, len(plans), total, len(found)))
if found:
    planidx, cls, body = found[0]
    rep = {"property": prop, "race": True, "class": prop + "/data-race/" + cls, "detail": body[:6000], "plan": json.loads(plans.get(planidx, "{}")), "shrunk": False,
           "all_classes": sorted(set(c for _, c, _ in found))}
    json.dump(rep, open(out, 'w'), indent=1)
    for c in sorted(set(c for _, c, _ in found)):
        print("data race: %s" % c)
    print("first in plan %s" % planidx)
    sys.exit(1)
if not racemode or not plans:
    sys.exit(2)
sys.exit(0)
