package node

import (
	"bytes"
	"crypto/sha256"
	"encoding/hex"
	"encoding/json"
	"fmt"
	"strings"

	"com.tuntun.rangers/node/src/common"
	"com.tuntun.rangers/node/src/middleware/types"
	"com.tuntun.rangers/node/src/zzverif/evmasm"
)

// Universe of the node-level workloads: 4 accounts funded by the dev genesis plus 4
// accounts whose private keys the harness owns; 4 miner ids.

type Key struct {
	SK   *common.PrivateKey
	Addr string
}

var HarnessKeys []Key

func init() {
	for i := 0; i < 4; i++ {
		s := sha256.Sum256([]byte(fmt.Sprintf("harness-key-%d", i)))
		sk := common.HexStringToSecKey("0x" + hex.EncodeToString(s[:]))
		pk := sk.GetPubKey()
		HarnessKeys = append(HarnessKeys, Key{SK: sk, Addr: pk.GetAddress().GetHexString()})
	}
}

// Account returns the i-th universe account (0..3 funded, 4..7 harness keys).
func Account(i int) string {
	i = ((i % 8) + 8) % 8
	if i < 4 {
		return Funded[i]
	}
	return HarnessKeys[i-4].Addr
}

func MinerID(i int) []byte {
	if i >= 100 {
		// the dev genesis proposers (registered at height 0, so counted in every height's stake table)
		return common.FromHex(Castors[(i-100)%len(Castors)])
	}
	s := sha256.Sum256([]byte(fmt.Sprintf("sim-miner-%d", i)))
	return s[:]
}

// Target is one entry of an operator transfer's JSON target object, kept as an
// ordered list so that the JSON text (and the transaction hash) is reproducible.
type Target struct {
	A string `json:"a"`
	V string `json:"v"`
}

// TxSpec describes one transaction of any supported type, compactly and replayably.
type TxSpec struct {
	K       string   `json:"k"` // xfer apply addstake refund chacct create call
	From    int      `json:"f"`
	Nonce   uint64   `json:"n,omitempty"`
	Targets []Target `json:"tg,omitempty"`
	Miner   int      `json:"m,omitempty"`
	MType   byte     `json:"mt,omitempty"`
	Stake   uint64   `json:"st,omitempty"`
	Acct    int      `json:"ac,omitempty"`
	AcctHex string   `json:"ach,omitempty"` // apply: explicit miner account (e.g. a contract address)
	Amount  string   `json:"am,omitempty"`
	Omit    string   `json:"omit,omitempty"` // refund: "Amount" or "MinerId" is left out of the payload
	NoPK    bool     `json:"nopk,omitempty"` // apply: the payload carries no public key (only the VRF key)
	Prog    int      `json:"p,omitempty"`
	Gas     uint64   `json:"g,omitempty"`
	Value   string   `json:"v,omitempty"`
	To      string   `json:"to,omitempty"` // contract address for call
	Arg     uint64   `json:"arg,omitempty"`
	Signed  bool     `json:"sg,omitempty"`
	Data    string   `json:"d,omitempty"`   // call: input data (hex)
	Eth     bool     `json:"eth,omitempty"` // create/call carried as a wrapped Ethereum transaction (type 188: nonce-checked)
	NDelta  int      `json:"nd,omitempty"`  // Eth: offset from the sender's expected nonce (the harness resolves the base)
	Salt    string   `json:"s,omitempty"`
}

// Programs: runtime code of the small generated contracts.
// ProgFactory / ProgProber: a CREATE2 factory whose children's runtime code length depends on the
// endowment (so the SAME init code, hence the same address, can carry different code after a
// self-destruct), and a contract that records EXTCODESIZE of the address in its call data.
const (
	ProgFactory = 100
	ProgProber  = 101
)

// FactoryInit is the init code the factory passes to CREATE2: runtime = CALLER SELFDESTRUCT followed by
// CALLVALUE zero bytes.
var FactoryInit = func() []byte {
	var c evmasm.Code
	c.Push(0x33ff).Push(0).Op(evmasm.MSTORE) // mem[30..32) = 33 ff
	c.Op(evmasm.CALLVALUE).Push(2).Op(evmasm.ADD).Push(30).Op(evmasm.RETURN)
	return c
}()

const FactorySalt = 0x5a17

func Program(kind int, arg uint64) []byte {
	var c evmasm.Code
	if kind == ProgFactory {
		// CREATE2(value = calldata word 0, init = FactoryInit, salt)
		chunk := make([]byte, 32)
		copy(chunk, FactoryInit)
		c.PushBytes(chunk).Push(0x80).Op(evmasm.MSTORE)
		c.Push(FactorySalt).Push(uint64(len(FactoryInit))).Push(0x80).Push(0).Op(evmasm.CALLDATALOAD).Op(evmasm.CREATE2, evmasm.POP, evmasm.STOP)
		return c
	}
	if kind == ProgProber {
		c.Push(0).Op(evmasm.CALLDATALOAD, evmasm.EXTCODESIZE).Push(1).Op(evmasm.SSTORE)
		c.Push(0).Op(evmasm.CALLDATALOAD, evmasm.EXTCODESIZE).Push(0).Op(evmasm.MSTORE).Push(0x51e).Push(32).Push(0).Op(evmasm.LOG1, evmasm.STOP)
		return c
	}
	switch kind % 8 {
	case 0: // store + log (and scribble over memory it never reads)
		c.PushBytes(bytes.Repeat([]byte{0xAB}, 32)).Push(0x300).Op(evmasm.MSTORE)
		c.Sstore(1, arg+1).Log1(0xaa, arg).Op(evmasm.STOP)
	case 1: // store then revert
		c.Sstore(2, arg+7).Revert()
	case 2: // forward the call value to the caller's address, store the balance
		c.Op(evmasm.SELFBALANCE).Push(3).Op(evmasm.SSTORE)
		c.Push(0).Push(0).Push(0).Push(0).Op(evmasm.CALLVALUE).Op(evmasm.CALLER).Op(evmasm.GAS).Op(evmasm.CALL).Op(evmasm.POP).Op(evmasm.STOP)
	case 3: // burn all gas
		c.Op(evmasm.JUMPDEST).Push(0).Op(evmasm.JUMP)
	case 4: // self-destruct to the caller
		c.Op(evmasm.CALLER, evmasm.SELFDESTRUCT)
	case 5: // self-destruct to itself
		c.Op(evmasm.ADDRESS, evmasm.SELFDESTRUCT)
	case 6: // counter: slot0++ and two logs; first it stores a word of memory it never wrote (fresh memory reads as zero)
		c.Push(0x300).Op(evmasm.MLOAD).Push(5).Op(evmasm.SSTORE)
		c.Push(0).Op(evmasm.SLOAD).Push(1).Op(evmasm.ADD).Push(0).Op(evmasm.SSTORE).Log1(1, arg).Log1(2, arg+1).Op(evmasm.STOP)
	default: // invalid opcode after a store
		c.Sstore(9, 9).Op(evmasm.INVALID)
	}
	return c
}

// Build turns a spec into a transaction. height selects the chain id.
func (s TxSpec) Build() *types.Transaction {
	src := Account(s.From)
	var tx *types.Transaction
	switch s.K {
	case "xfer":
		// JSON object text with the targets in list order (duplicates possible: the decoder keeps the last)
		var sb strings.Builder
		sb.WriteString("{")
		for i, t := range s.Targets {
			if i > 0 {
				sb.WriteString(",")
			}
			k, _ := json.Marshal(t.A)
			v, _ := json.Marshal(t.V)
			sb.WriteString(string(k) + `:{"balance":` + string(v) + "}")
		}
		sb.WriteString("}")
		tx = RawTx(types.TransactionTypeOperatorEvent, src, "", s.Nonce, "", sb.String(), s.Salt)
	case "apply", "addstake", "chacct":
		m := types.Miner{Id: MinerID(s.Miner), Type: s.MType, Stake: s.Stake}
		typ := int32(types.TransactionTypeMinerApply)
		switch s.K {
		case "apply":
			m.PublicKey = []byte{1, 2, 3, byte(s.Miner)}
			if s.NoPK {
				m.PublicKey = nil
			}
			m.VrfPublicKey = []byte{4, 5, 6, byte(s.Miner)}
			if s.Acct > 0 {
				m.Account = common.FromHex(Account(s.Acct - 1))
			}
			if s.AcctHex != "" {
				m.Account = common.FromHex(s.AcctHex)
			}
		case "addstake":
			typ = types.TransactionTypeMinerAdd
		case "chacct":
			typ = types.TransactionTypeMinerChangeAccount
			m.Account = common.FromHex(Account(s.Acct))
		}
		data, _ := json.Marshal(m)
		tx = RawTx(typ, src, "", s.Nonce, string(data), "", s.Salt)
	case "node":
		// "become a node owner": moves the sender's miner to a contract account created through the main
		// node contract (absent on the dev chain: the executor debits 10 tokens and then fails)
		tx = RawTx(types.TransactionTypeOperatorNode, src, "", s.Nonce, "", "", s.Salt)
	case "refund":
		fields := map[string]string{"Amount": s.Amount, "MinerId": common.ToHex(MinerID(s.Miner))}
		if s.Omit != "" {
			delete(fields, s.Omit) // malformed: the json lacks this field
		}
		data, _ := json.Marshal(fields)
		tx = RawTx(types.TransactionTypeMinerRefund, src, "", s.Nonce, string(data), "", s.Salt)
		s.Signed = true // the refund executor ignores unsigned transactions
	case "create", "call":
		gas := s.Gas
		if gas == 0 {
			gas = 60000000 // creation/intrinsic gas is magnified x30 once Proposal026 is active
		}
		val := s.Value
		if val == "" {
			val = "0"
		}
		cd := types.ContractData{GasLimit: fmt.Sprintf("%d", gas), TransferValue: val}
		target := ""
		if s.K == "create" && s.Data != "" {
			cd.AbiData = "0x" + strings.TrimPrefix(s.Data, "0x") // explicit init code
		} else if s.K == "create" {
			cd.AbiData = common.ToHex(evmasm.Deployer(Program(s.Prog, s.Arg)))
		} else {
			target = s.To
			cd.AbiData = "0x" + strings.TrimPrefix(s.Data, "0x")
		}
		typ, extra := int32(types.TransactionTypeContract), ""
		if s.Eth {
			// the shape eth_tx.ConvertTx gives a wrapped Ethereum transaction; execution trusts Source
			// (signatures are judged at admission, C07), so the RLP payload only has to be carried
			typ = types.TransactionTypeETHTX
			cd.GasPrice = "1000000000"
			extra = "0x" + hex.EncodeToString([]byte("rlp-"+s.Salt))
		}
		data, _ := json.Marshal(cd)
		tx = RawTx(typ, src, target, s.Nonce, string(data), extra, s.Salt)
	default:
		tx = RawTx(types.TransactionTypeOperatorEvent, src, "", s.Nonce, "", "", s.Salt)
	}
	if s.Signed {
		i := ((s.From % 8) + 8) % 8
		var sk *common.PrivateKey
		if i >= 4 {
			sk = HarnessKeys[i-4].SK
		} else {
			sk = HarnessKeys[0].SK // funded genesis accounts have no known key: any signature (executors do not re-verify)
		}
		sg := sk.Sign(tx.Hash.Bytes())
		tx.Sign = &sg
	}
	return tx
}
