package node

import (
	"crypto/sha256"
	"fmt"
	"math/big"
	"sync"
	"time"

	"com.tuntun.rangers/node/src/common"
	"com.tuntun.rangers/node/src/consensus/logical/group_create"
	"com.tuntun.rangers/node/src/core"
	"com.tuntun.rangers/node/src/middleware"
	xdb "com.tuntun.rangers/node/src/middleware/db"
	"com.tuntun.rangers/node/src/middleware/mysql"
	"com.tuntun.rangers/node/src/middleware/types"
	"com.tuntun.rangers/node/src/network"
	"com.tuntun.rangers/node/src/service"
	"com.tuntun.rangers/node/src/storage/account"
	"com.tuntun.rangers/node/src/utility"
	"com.tuntun.rangers/node/src/vm"
	"com.tuntun.rangers/node/src/zzverif/simdisk"
	"com.tuntun.rangers/node/src/zzverif/simrt"
	"github.com/syndtr/goleveldb/leveldb"
)

// Helper is the stub ConsensusHelper: group signatures and VRF are accepted (they
// are judged by C13..C16, not by the chain properties); genesis info is the real one.
type Helper struct {
	CheckGroupOK  bool
	RejectHeaders map[common.Hash]bool
}

func (h *Helper) GenerateGenesisInfo() []*types.GenesisInfo { return group_create.GetGenesisInfo() }
func (h *Helper) VRFProve2Value(prove *big.Int) *big.Int {
	if prove == nil {
		return big.NewInt(0)
	}
	return new(big.Int).Set(prove)
}
func (h *Helper) ProposalBonus() *big.Int { return big.NewInt(50) }
func (h *Helper) PackBonus() *big.Int     { return big.NewInt(10) }
func (h *Helper) VerifyHash(b *types.Block) common.Hash {
	s := sha256.Sum256(append([]byte("verify-hash:"), b.Header.Hash.Bytes()...))
	return common.BytesToHash(s[:])
}
func (h *Helper) CheckProveRoot(bh *types.BlockHeader) (bool, error) { return true, nil }
func (h *Helper) VerifyNewBlock(bh *types.BlockHeader, preBH *types.BlockHeader) (bool, error) {
	// the structural part of the real Processor.VerifyBlock; only the group-signature / VRF
	// verification that follows it there is stubbed
	if bh.Hash != bh.GenHash() {
		return false, fmt.Errorf("block hash error")
	}
	if preBH == nil || preBH.Hash != bh.PreHash {
		return false, fmt.Errorf("preHash error")
	}
	if h.RejectHeaders != nil && h.RejectHeaders[bh.Hash] {
		return false, fmt.Errorf("stub: rejected")
	}
	return true, nil
}
func (h *Helper) VerifyBlockHeader(bh *types.BlockHeader) (bool, error) { return true, nil }
func (h *Helper) VerifyGroupSign(groupPubkey []byte, blockHash common.Hash, sign []byte) (bool, error) {
	return true, nil
}
func (h *Helper) CheckGroup(g *types.Group) (bool, error) {
	if h.CheckGroupOK {
		return true, nil
	}
	return false, fmt.Errorf("stub: group rejected")
}
func (h *Helper) VerifyMemberInfo(bh *types.BlockHeader, preBH *types.BlockHeader) (bool, error) {
	return true, nil
}
func (h *Helper) VerifyGroupForFork(g *types.Group, preGroup *types.Group, parentGroup *types.Group, baseBlock *types.Block) (bool, error) {
	return true, nil
}

// ---------------------------------------------------------------------------

// Node is one incarnation of the real node on a simulated disk.
type Node struct {
	Disk   *simdisk.Disk
	Helper *Helper
	Chain  core.BlockChain
	Groups core.GroupChain
	Pool   service.TransactionPool
	Net    *SimNet
}

var (
	hookMu sync.Mutex
	// Writes counts completed physical store writes of the current incarnation.
	Writes int
	// OnWrite, when set, is called after every completed physical write (index is 1-based).
	OnWrite func(index int, kind string)
	// BootOnWrite, when set, becomes OnWrite for the writes of the next Boot itself (recovery writes).
	BootOnWrite func(index int, kind string)
	// FailWrite, when set, may refuse a physical write before it happens.
	FailWrite func(kind string) error
	current   *Node
)

func installHooks() {
	xdb.SimPostWriteHook = func(db *leveldb.DB, kind string) {
		hookMu.Lock()
		Writes++
		i := Writes
		f := OnWrite
		hookMu.Unlock()
		if f != nil {
			f(i, kind)
		}
	}
	xdb.SimPreWriteHook = func(db *leveldb.DB, kind string) error {
		if f := FailWrite; f != nil {
			return f(kind)
		}
		return nil
	}
}

// Clock: protocol time is utility.GetTime(); the harness moves it explicitly.
func SetTime(t time.Time) {
	noteSimTime(t)
	utility.SimSetNow(t.UnixNano())
}

// noteSimTime records a protocol time value the plan uses (clock settings, block timestamps).
func noteSimTime(t time.Time) {
	n := t.UnixNano()
	if !spanSet || n < spanMin {
		spanMin = n
	}
	if !spanSet || n > spanMax {
		spanMax = n
	}
	spanSet = true
}
func Advance(d time.Duration) {
	spanAdv += int64(d)
	utility.SimAdvance(d)
}

// simulated protocol time covered since the last call: the span of the clock values a plan set plus
// what it advanced explicitly (reported as "simulated time" in the evidence)
var (
	spanSet          bool
	spanMin, spanMax int64
	spanAdv          int64
)

func init() {
	simrt.SimSpanHook = func() int64 {
		ms := spanAdv / int64(time.Millisecond)
		if spanSet {
			ms += (spanMax - spanMin) / int64(time.Millisecond)
		}
		spanSet, spanMin, spanMax, spanAdv = false, 0, 0, 0
		return ms
	}
}

// Boot starts a node incarnation over disk (fresh disk => genesis is created).
// Any previous incarnation in this process is abandoned first (its store handles are
// closed; its bytes stay on its own disk).
func Boot(disk *simdisk.Disk, forks Forks, withHandlers bool) *Node {
	InitProcess()
	installHooks()
	if current != nil {
		current.Disk.CloseAll()
		middleware.Close() // closes the account store handle (already closed: harmless) and sqlite
	}
	hookMu.Lock()
	Writes = 0
	OnWrite = BootOnWrite
	BootOnWrite = nil
	hookMu.Unlock()
	FailWrite = nil

	SetForks(forks)
	common.SetBlockHeight(0)
	net := &SimNet{}
	network.SimNetwork = net
	xdb.SimOpenHook = disk.Open
	xdb.SimReset()
	account.SimResetProcessCaches()
	core.SimReset()
	service.SimReset()

	if err := middleware.InitMiddleware(); err != nil {
		panic(err)
	}
	// second store (sqlite: contract logs, group index) is not oracle-visible; every
	// incarnation starts it empty and the node rebuilds what it needs
	mysql.SimWipe()
	service.InitService()
	vm.InitVM()
	h := &Helper{CheckGroupOK: true}
	if err := core.SimInit(h, withHandlers); err != nil {
		panic(err)
	}
	n := &Node{Disk: disk, Helper: h, Chain: core.GetBlockChain(), Groups: core.GetGroupChain(), Pool: service.GetTransactionPool(), Net: net}
	current = n
	return n
}
