#!/usr/bin/env python3
"""usage: meta-from-readme.py <seeded dir>...  - replaces the free-text description in meta.json (needs_to_manifest
for a breaking change, what for a preserving one) by text taken from the sub-agent's own README.md: its title line and
its "what is needed to manifest" section (breaking) or its "change" section (preserving)."""
import json, re, sys, os
def sect(txt, pats):
    lines = txt.splitlines()
    for i, l in enumerate(lines):
        if any(re.search(p, l, re.I) for p in pats):
            rest = l.split(':', 1)[1].strip() if (':' in l and not l.lstrip().startswith('#')) else ''
            rest = re.sub(r'^\*+\s*', '', rest)
            out = [rest] if rest else []
            for m in lines[i+1:]:
                if m.lstrip().startswith('#') or re.match(r'^\*\*[^*]+:?\*\*', m.strip()) and out:
                    break
                if not m.strip() and out:
                    if len(' '.join(out)) > 200: break
                    continue
                if m.strip(): out.append(m.strip())
            return re.sub(r'\s+', ' ', ' '.join(out)).strip()
    return ''
for d in sys.argv[1:]:
    mp = os.path.join(d, 'meta.json'); rp = os.path.join(d, 'README.md')
    meta = json.load(open(mp)); txt = open(rp).read()
    title = next((l.lstrip('# ').strip() for l in txt.splitlines() if l.startswith('#')), '')
    if 'breaks_property' in meta:
        need = sect(txt, [r'needed? (to|for it to) manifest', r'what is needed', r'needs to manifest'])
        meta['needs_to_manifest'] = (title + '. Needed to manifest: ' + need)[:900] if need else title
    else:
        ch = sect(txt, [r'^#+\s*(the )?change', r'^\*\*change'])
        meta['what'] = (title + '. ' + ch)[:700] if ch else title
    json.dump(meta, open(mp, 'w'), indent=1)
    print(os.path.basename(d), '->', (meta.get('needs_to_manifest') or meta.get('what'))[:160])
