#!/usr/bin/env python3
"""usage: merge-matrix.py <base.tsv> <newer.tsv>... > merged.tsv  - rows of later files replace rows with the same change id."""
import sys
rows = {}
order = []
for f in sys.argv[1:]:
    for l in open(f):
        l = l.rstrip("\n")
        if not l.strip():
            continue
        k = l.split("\t")[0]
        if k not in rows:
            order.append(k)
        rows[k] = l
for k in sorted(order):
    print(rows[k])
