package harness

import (
	"bytes"
	"encoding/json"
	"fmt"
	"math/big"
	"reflect"
	"runtime"
	"strings"
	"time"

	"com.tuntun.rangers/node/src/common"
	"com.tuntun.rangers/node/src/consensus/groupsig"
	"com.tuntun.rangers/node/src/consensus/model"
	cnet "com.tuntun.rangers/node/src/consensus/net"
	middleware_pb "com.tuntun.rangers/node/src/middleware/pb"
	"com.tuntun.rangers/node/src/middleware/types"
	"com.tuntun.rangers/node/src/network"
	"com.tuntun.rangers/node/src/zzverif/node"
	"com.tuntun.rangers/node/src/zzverif/runner"
	"com.tuntun.rangers/node/src/zzverif/simdisk"
	"com.tuntun.rangers/node/src/zzverif/simmap"
	"com.tuntun.rangers/node/src/zzverif/simrt"
	"com.tuntun.rangers/node/src/zzverif/simsched"
	"github.com/golang/protobuf/proto"
)

// C09 — block/header/transaction/group wire codecs are lossless and total.
//
// Simulated system: a booted real node with its peer-message handlers. Objects the
// node produces itself (cast blocks with bodies, headers, transactions, groups) and
// edge-valued in-memory objects cross the simulated transport and disk through the
// real codecs; the transport additionally corrupts messages (bit flips, truncation,
// extension, removal of one optional protobuf field, random bytes) into every
// parser that sits on the peer-to-peer receive path.

type c09Plan struct {
	Seed      uint64 `json:"seed"`
	Blocks    int    `json:"blocks"`
	Corrupt   []c09C `json:"corrupt"`
	SchedSeed uint64 `json:"sched_seed"`
	Conc      int    `json:"conc,omitempty"` // concurrent users of the codec (scheduler tasks); 0 = none
	ZoneH     int    `json:"zone_h"`
	Nanos     int    `json:"nanos"`
}

type c09C struct {
	Msg  string `json:"msg"`  // tx txs block header group env-block env-txs env-txreq txreq
	Kind string `json:"kind"` // bitflip truncate extend dropfield random
	Arg  int    `json:"arg"`
	Via  string `json:"via"` // direct | net
}

type c09 struct{}

func init() { runner.Register(c09{}) }

func (c09) ID() string    { return "C09" }
func (c09) Level() string { return "exploration" }

func (c09) Budget(tier string) runner.Budget {
	if tier == "thorough" {
		return runner.Budget{Plans: 30000, PlansPerProc: 30, Wall: 14 * time.Minute}
	}
	return runner.Budget{Plans: 6000, PlansPerProc: 30, Wall: 45 * time.Second}
}

func (c09) Describe() runner.Description {
	return runner.Description{
		Rule:        "each plan: (A) a node casts 1..4 blocks with transfer / contract transactions; every block, header, transaction and group the node produced or parsed is sent through Marshal/UnMarshal: the parsed object must re-hash to the sender's identifying hash and re-marshal to identical bytes; a block accepted by one incarnation is relayed as bytes and must be accepted by another with the same hash; edge-valued in-memory headers/transactions/groups (times in a seeded zone with sub-second part, zero and maximal integers, nil vs empty byte fields, prove values whose bytes start with zeros, request-id maps, empty and 200-transaction bodies) must reach a fixed point after one marshal/parse pass; the genesis header and fully populated boundary headers (prove value 0/1/255/256, zero counters, epoch times) and 10 seeded transactions with unusual field texts (upper-case / EIP-55 / 0X-prefixed / non-address sources and targets, the same address in several spellings within one process, binary and unicode data, extreme nonces and request ids, sub transactions moving balance / coins / fungible tokens / assets) must keep their hash and every field; bytes returned by any Marshal call must not change when the codec is used again. (C, 40% of the plans) 2-3 scheduler tasks marshal the node's blocks, headers, transactions and the group concurrently (statement-level yield points inside middleware/types): every caller must receive exactly the bytes the same call returns alone and re-hash its header / transaction to the identifying hash; the same plans run in the race-detector stage. (B) 20..120 corrupted deliveries: valid bytes of each message kind are bit-flipped, truncated, extended, stripped of one optional protobuf field, or replaced by random bytes, and handed to the exported parsers directly and, as envelopes or as gateway frames (every method code, with the network-id prefix of the to-manager method, also cut short), to the node's receive path (NewBlockMsg, ReqTransactionMsg, TransactionGotMsg handlers run as scheduler tasks); consensus messages (block proposal, verification share, key share piece, signing-key announcement; built as the consensus encoders build them, then corrupted) take the same path into the real ConsensusHandler.Handle, which the connection starts as a goroutine = a scheduler task, and through consensus/net/msg_decode.go. Any panic that escapes is a violation; afterwards an intact block must still be accepted. evaluations = codec round trips + corrupted deliveries. distinct_nontrivial = distinct (message kind, corruption kind, parse outcome, path) tuples.",
		Assumptions: []string{"sync-processor message kinds are not driven (the sync processor is not started)"},
		Real:        []string{"middleware/types serialization (all Marshal*/UnMarshal*, PbTo*)", "network envelope codec and receive dispatch (instrumented: its goroutines are scheduler tasks)", "consensus/net ConsensusHandler.Handle + msg_decode + group-creation state machines", "core ChainHandler (new block, transaction request)", "notify bus fan-out under the simulated scheduler", "golang/protobuf"},
		Stub:        []string{"websocket gate", "ConsensusHelper", "sync processor", "consensus message processors behind the real ConsensusHandler (decoded messages are dropped)"},
		FaultKinds:  []string{"corrupt_bitflip", "corrupt_truncate", "corrupt_extend", "corrupt_dropfield", "corrupt_random", "relay_between_incarnations", "frame_truncated", "consensus_message_corrupted", "concurrent_codec_callers", "gateway_request_id"},
	}
}

var c09Msgs = []string{"tx", "txs", "block", "header", "group", "env-block", "env-txs", "env-txreq", "env-raw", "env-cast", "env-verify", "env-keypiece", "env-signpk"}
var c09Kinds = []string{"bitflip", "truncate", "extend", "dropfield", "dropfield", "random"}

func (c09) Gen(seed uint64, tier string) json.RawMessage {
	r := simrt.NewRand(seed)
	p := c09Plan{Seed: seed, Blocks: r.Range(1, 4), SchedSeed: r.U64(), ZoneH: r.Range(-11, 13), Nanos: r.Intn(1000000000)}
	n := r.Range(20, 60)
	if r.Chance(0.3) {
		n = r.Range(61, 120)
	}
	if r.Chance(0.4) {
		p.Conc = r.Range(2, 3)
	}
	for i := 0; i < n; i++ {
		c := c09C{Msg: c09Msgs[r.Intn(len(c09Msgs))], Kind: c09Kinds[r.Intn(len(c09Kinds))], Arg: r.Intn(1 << 24), Via: "direct"}
		if strings.HasPrefix(c.Msg, "env-") {
			c.Via = "net"
		}
		p.Corrupt = append(p.Corrupt, c)
	}
	b, _ := json.Marshal(p)
	return b
}

// dropField re-encodes msg with the arg-th settable optional field cleared.
func dropField(raw []byte, msg proto.Message, arg int) []byte {
	if proto.Unmarshal(raw, msg) != nil {
		return nil
	}
	v := reflect.ValueOf(msg).Elem()
	var cands []reflect.Value
	var walk func(v reflect.Value, depth int)
	walk = func(v reflect.Value, depth int) {
		for i := 0; i < v.NumField(); i++ {
			f := v.Field(i)
			if !f.CanSet() || strings.HasPrefix(v.Type().Field(i).Name, "XXX_") {
				continue
			}
			switch f.Kind() {
			case reflect.Ptr:
				if !f.IsNil() {
					cands = append(cands, f)
					if f.Elem().Kind() == reflect.Struct && depth < 2 {
						walk(f.Elem(), depth+1)
					}
				}
			case reflect.Slice:
				if f.Len() > 0 {
					cands = append(cands, f)
					if f.Type().Elem().Kind() == reflect.Ptr && f.Index(0).Elem().Kind() == reflect.Struct && depth < 2 {
						walk(f.Index(0).Elem(), depth+1)
					}
				}
			}
		}
	}
	walk(v, 0)
	if len(cands) == 0 {
		return nil
	}
	f := cands[arg%len(cands)]
	f.Set(reflect.Zero(f.Type()))
	out, err := proto.Marshal(msg)
	if err != nil {
		return nil // a required field was removed: the decoder would refuse it anyway
	}
	return out
}

func c09Corrupt(raw []byte, c c09C, pbmsg proto.Message, r *simrt.Rand) []byte {
	switch c.Kind {
	case "bitflip":
		return flipBit(raw, c.Arg)
	case "truncate":
		if len(raw) == 0 {
			return raw
		}
		return append([]byte{}, raw[:c.Arg%len(raw)]...)
	case "extend":
		return append(append([]byte{}, raw...), r.Bytes(1+c.Arg%9)...)
	case "dropfield":
		if pbmsg == nil {
			return nil
		}
		return dropField(raw, pbmsg, c.Arg)
	default:
		return r.Bytes(1 + c.Arg%200)
	}
}

// guarded runs f and reports a panic as (function, message).
func guarded(f func()) (where string, msg string) {
	defer func() {
		if r := recover(); r != nil {
			buf := make([]byte, 1<<14)
			buf = buf[:runtime.Stack(buf, false)]
			where, msg = c09PanicWhere(string(buf)), fmt.Sprintf("%v\n%s", r, buf)
		}
	}()
	f()
	return "", ""
}

func c09PanicWhere(stack string) string {
	for _, l := range strings.Split(stack, "\n") {
		l = strings.TrimSpace(l)
		if strings.HasPrefix(l, "com.tuntun.rangers/node/src/") && !strings.Contains(l, "/zzverif/") {
			l = strings.Replace(strings.Replace(l, "(*", "", -1), ").", ".", -1)
			if i := strings.Index(l, "("); i > 0 {
				l = l[:i]
			}
			return strings.TrimPrefix(l, "com.tuntun.rangers/node/src/")
		}
	}
	return "unknown"
}

// the consensus layer's message processors: the decoded message is dropped (decoding is the subject here)
type c09GroupStub struct{}

func (c09GroupStub) OnMessageCreateGroupPing(*model.CreateGroupPingMessage)                   {}
func (c09GroupStub) OnMessageCreateGroupPong(*model.CreateGroupPongMessage)                   {}
func (c09GroupStub) OnMessageParentGroupConsensus(*model.ParentGroupConsensusMessage)         {}
func (c09GroupStub) OnMessageParentGroupConsensusSign(*model.ParentGroupConsensusSignMessage) {}
func (c09GroupStub) OnMessageGroupInit(*model.GroupInitMessage)                               {}
func (c09GroupStub) OnMessageSharePiece(*model.SharePieceMessage)                             {}
func (c09GroupStub) OnMessageSignPK(*model.SignPubKeyMessage)                                 {}
func (c09GroupStub) OnMessageGroupInited(*model.GroupInitedMessage)                           {}
func (c09GroupStub) OnMessageSharePieceReq(*model.ReqSharePieceMessage)                       {}
func (c09GroupStub) OnMessageSharePieceResponse(*model.ResponseSharePieceMessage)             {}
func (c09GroupStub) OnMessageSignPKReq(*model.SignPubkeyReqMessage)                           {}

type c09MiningStub struct{}

func (c09MiningStub) Ready() bool                                   { return true }
func (c09MiningStub) OnMessageCast(*model.ConsensusCastMessage)     {}
func (c09MiningStub) OnMessageVerify(*model.ConsensusVerifyMessage) {}

// RacePlan / RaceFrames: race-detector stage (DESIGN.md 13.4) over concurrent callers of the codec.
func (c09) RacePlan(seed uint64, i int) json.RawMessage {
	var p c09Plan
	json.Unmarshal(c09{}.Gen(runner.PlanSeed(seed, "C09-race", i), "quick"), &p)
	p.Conc = 2 + i%2
	p.Corrupt = nil
	b, _ := json.Marshal(p)
	return b
}

func (c09) RaceFrames() []string {
	return []string{"/src/middleware/types.", "/src/middleware/pb."}
}

func (c09) Exec(raw json.RawMessage, st *simrt.Stats, log *simrt.Log) *simrt.Violation {
	var p c09Plan
	if err := json.Unmarshal(raw, &p); err != nil {
		panic(runner.InfraError{Msg: "bad plan: " + err.Error()})
	}
	simmap.Seed = simrt.Mix(p.Seed, 0x6d6170) | 1
	r := simrt.NewRand(p.Seed ^ 0xc09)
	viol := func(ev int, clause, where, f string, a ...interface{}) *simrt.Violation {
		return simrt.Violationf("C09", clause, where, ev, f, a...)
	}
	disk := simdisk.NewDisk()
	n := node.Boot(disk, node.ForksLatestSync, true)
	network.SimInit(cnet.SimNewHandler(c09GroupStub{}, c09MiningStub{}))
	genesisImage := disk.Clone()

	// ---- (A) lossless: objects produced by the node ----
	var blocks []*types.Block
	zone := time.FixedZone("z", p.ZoneH*3600)
	for i := 0; i < p.Blocks; i++ {
		var txs []*types.Transaction
		for j := 0; j < r.Intn(4); j++ {
			if r.Chance(0.7) {
				txs = append(txs, node.TransferTx(node.Funded[r.Intn(4)], 0, map[string]string{node.Account(r.Intn(8)): fmt.Sprintf("%d", r.Range(1, 90))}, fmt.Sprintf("c9-%d-%d", i, j)))
			} else {
				txs = append(txs, node.TxSpec{K: "create", From: r.Intn(4), Prog: r.Intn(8), Salt: fmt.Sprintf("c9c-%d-%d", i, j)}.Build())
			}
		}
		if len(txs) > 0 && r.Chance(0.5) {
			// a gateway request id (outside the transaction hash); the block header carries the highest one seen
			txs[0].RequestId = uint64(10*(i+1) + r.Intn(5))
			st.Fault("gateway_request_id")
		}
		// sub-second, zoned timestamps
		node.SetTime(node.EpochTime.Add(time.Duration(i) * time.Hour).In(zone))
		b, err := n.CastBlock(node.BlockSpec{QN: uint64(r.Range(1, 3)), PV: int64(r.Range(1, 1<<20)), Castor: r.Intn(2), TimeMs: int64(1000*(i+1)) + int64(p.Nanos%1000), Txs: txs})
		if err != nil {
			panic(runner.InfraError{Msg: "C09 cast: " + err.Error()})
		}
		// proposing a block must leave the head it builds on as it was: the live head object is what the node
		// relays and re-hashes when a peer asks for it
		if top := n.Chain.TopBlock(); top != nil && top.GenHash() != top.Hash {
			return viol(i, "hash-changed-by-codec", "head-after-cast", "after proposing block %d the head header (height %d) no longer re-hashes to its hash (request ids now %v)", i, top.Height, top.RequestIds)
		}
		wire, err := types.MarshalBlock(b)
		if err != nil {
			return viol(i, "marshal-error", "block", "MarshalBlock: %v", err)
		}
		parsed, err := types.UnMarshalBlock(wire)
		if err != nil || parsed == nil || parsed.Header == nil {
			return viol(i, "own-object-not-parseable", "block", "UnMarshalBlock of the node's own block failed: %v", err)
		}
		if parsed.Header.GenHash() != b.Header.Hash || parsed.Header.Hash != b.Header.Hash {
			return viol(i, "hash-changed-by-codec", "block", "block hash %x, after marshal/parse the header re-hashes to %x", b.Header.Hash.Bytes()[:6], parsed.Header.GenHash().Bytes()[:6])
		}
		again, _ := types.MarshalBlock(parsed)
		if !bytes.Equal(again, wire) {
			return viol(i, "remarshal-differs", "block", "re-marshalling the parsed block gives different bytes")
		}
		hw, _ := types.MarshalBlockHeader(b.Header)
		ph, err := types.UnMarshalBlockHeader(hw)
		if err != nil || ph == nil || ph.GenHash() != b.Header.Hash {
			return viol(i, "hash-changed-by-codec", "header", "header record does not re-hash to the block hash (err %v)", err)
		}
		for _, tx := range b.Transactions {
			tw, _ := types.MarshalTransaction(tx)
			pt, err := types.UnMarshalTransaction(tw)
			if err != nil {
				return viol(i, "own-object-not-parseable", "transaction", "%v", err)
			}
			if pt.Hash != tx.Hash || (tx.Type != types.TransactionTypeETHTX && pt.GenHash() != tx.Hash) {
				return viol(i, "hash-changed-by-codec", "transaction", "transaction %x re-hashes to %x after marshal/parse", tx.Hash.Bytes()[:6], pt.GenHash().Bytes()[:6])
			}
			tw2, _ := types.MarshalTransaction(&pt)
			if !bytes.Equal(tw, tw2) {
				return viol(i, "remarshal-differs", "transaction", "re-marshalling the parsed transaction gives different bytes")
			}
		}
		if res := n.Chain.AddBlockOnChain(parsed); res != types.AddBlockSucc {
			return viol(i, "parsed-block-rejected", "own-incarnation", "the node rejects its own block after a marshal/parse round trip: %d", res)
		}
		blocks = append(blocks, b)
		st.Evaluations++
	}
	// stored -> reloaded: what the block store returns re-hashes to the same identity
	for _, b := range blocks {
		got := n.Chain.QueryBlockByHash(b.Header.Hash)
		if got == nil || got.Header == nil || got.Header.GenHash() != b.Header.Hash {
			return viol(-1, "hash-changed-by-codec", "stored-block", "block %x reloaded from the store does not re-hash to its identity", b.Header.Hash.Bytes()[:6])
		}
		hh := n.Chain.QueryBlockHeaderByHeight(b.Header.Height, false)
		if hh == nil || hh.GenHash() != b.Header.Hash {
			return viol(-1, "hash-changed-by-codec", "stored-header", "header at height %d reloaded from the store does not re-hash to the block hash", b.Header.Height)
		}
	}
	// groups
	g := n.Groups.GetGroupByHeight(0)
	for k := 0; k < 3; k++ {
		gg := *g
		hdr := *g.Header
		gg.Header = &hdr
		if k > 0 {
			hdr.BeginTime = node.EpochTime.Add(time.Duration(p.Nanos)).In(zone)
			hdr.CreateHeight = []uint64{0, 1, 1<<64 - 1}[k]
			hdr.Extends = []string{"", "x", strings.Repeat("e", 300)}[k]
			hdr.Hash = hdr.GenHash()
			gg.GroupHeight = []uint64{0, 7, 1<<64 - 1}[k]
		}
		gw, err := types.MarshalGroup(&gg)
		if err != nil {
			return viol(-1, "marshal-error", "group", "%v", err)
		}
		pg, err := types.UnMarshalGroup(gw)
		if err != nil || pg == nil || pg.Header == nil {
			return viol(-1, "own-object-not-parseable", "group", "%v", err)
		}
		if pg.Header.GenHash() != gg.Header.GenHash() || !bytes.Equal(pg.Id, gg.Id) || pg.GroupHeight != gg.GroupHeight {
			return viol(-1, "hash-changed-by-codec", "group", "group header re-hashes differently after marshal/parse")
		}
		gw2, _ := types.MarshalGroup(pg)
		if !bytes.Equal(gw, gw2) {
			return viol(-1, "remarshal-differs", "group", "re-marshalling the parsed group gives different bytes")
		}
		st.Evaluations++
	}
	// edge-valued in-memory headers: fixed point after one pass
	for k := 0; k < 6; k++ {
		h := types.BlockHeader{Height: []uint64{0, 1, 1<<64 - 1, 5, 6, 7}[k], TotalQN: []uint64{0, 1<<64 - 1, 3, 4, 5, 6}[k], Nonce: uint64(k),
			CurTime: time.Unix(int64(1700000000+k), int64(p.Nanos)).In(zone), PreTime: time.Unix(1, 1).UTC(),
			ProveValue: new(big.Int).SetBytes(append([]byte{0, 0, byte(k)}, r.Bytes(30)...)), RequestIds: map[string]uint64{"fixed": uint64(k), "b": 2}}
		switch k {
		case 1:
			h.Castor, h.GroupId, h.Signature, h.ExtraData, h.Random = []byte{}, []byte{}, []byte{}, []byte{}, []byte{}
		case 2:
			h.ProveValue = nil
			h.RequestIds = nil
		case 3:
			for j := 0; j < 200; j++ {
				h.Transactions = append(h.Transactions, common.Hashes{common.BytesToHash(r.Bytes(32)), common.Hash{}})
			}
			h.EvictedTxs = []common.Hash{common.BytesToHash(r.Bytes(32))}
		case 4:
			h.CurTime = time.Time{}
			h.PreTime = time.Time{}
		}
		h.Hash = h.GenHash()
		w1, err := types.MarshalBlockHeader(&h)
		if err != nil {
			return viol(-1, "marshal-error", "edge-header", "%v", err)
		}
		x1, err := types.UnMarshalBlockHeader(w1)
		if err != nil || x1 == nil {
			return viol(-1, "own-object-not-parseable", "edge-header", "edge header %d: %v", k, err)
		}
		w2, _ := types.MarshalBlockHeader(x1)
		x2, err := types.UnMarshalBlockHeader(w2)
		if err != nil || x2 == nil || !bytes.Equal(w1, w2) || x1.GenHash() != x2.GenHash() {
			return viol(-1, "no-fixed-point", "edge-header", "edge header %d does not reach a fixed point after one marshal/parse pass", k)
		}
		st.Evaluations++
	}
	// headers whose every field is set (no nil-vs-empty question): the identity must survive the codec,
	// including boundary values a careless guard would drop (zero prove value, zero counters, epoch times)
	{
		gen := n.Chain.QueryBlockHeaderByHeight(uint64(0), true)
		cands := []*types.BlockHeader{gen}
		for k := 0; k < 4; k++ {
			h := types.BlockHeader{Height: uint64(k), TotalQN: uint64(k / 2), Nonce: 0, CurTime: time.Unix(int64(k), 0).UTC(), PreTime: time.Unix(0, 0).UTC(),
				ProveValue: big.NewInt(int64([]int{0, 1, 255, 256}[k])), Castor: []byte{0}, GroupId: []byte{0, 0}, Signature: []byte{0}, Random: []byte{0}, ExtraData: []byte{0},
				PreHash: common.Hash{}, RequestIds: map[string]uint64{"z": 0}, Transactions: []common.Hashes{{common.Hash{}, common.Hash{}}}, EvictedTxs: []common.Hash{{}}}
			h.Hash = h.GenHash()
			cands = append(cands, &h)
		}
		for k, h := range cands {
			if h == nil {
				continue
			}
			w, err := types.MarshalBlockHeader(h)
			if err != nil {
				return viol(-1, "marshal-error", "boundary-header", "%v", err)
			}
			x, err := types.UnMarshalBlockHeader(w)
			if err != nil || x == nil {
				return viol(-1, "own-object-not-parseable", "boundary-header", "boundary header %d: %v", k, err)
			}
			if x.GenHash() != h.GenHash() || x.Hash != h.Hash {
				return viol(-1, "hash-changed-by-codec", "boundary-header", "boundary header %d (height %d, prove value %v) re-hashes to %x after marshal/parse, identity %x", k, h.Height, h.ProveValue, x.GenHash().Bytes()[:6], h.GenHash().Bytes()[:6])
			}
			st.Evaluations++
		}
	}
	// transactions with unusual but legal field contents: every authenticated field must come back
	// byte for byte (the hash is computed over their text)
	{
		srcs := []string{node.Account(4), node.Account(5), "0x" + strings.ToUpper(node.Account(5)[2:]), "0x" + strings.ToUpper(node.Account(4)[2:6]) + node.Account(4)[6:], "0X" + node.Account(6)[2:], "0xAbCdEf0123456789aBcDeF0123456789abcdef01", "alice", "", "Ünïcode-名", "0x00"}
		strs := []string{"", " ", "{\"a\":1}", "\x00\x01binary\xff", "UPPER lower", strings.Repeat("y", 300), "0xDEADbeef", "ünï\u2028"}
		for k := 0; k < 10; k++ {
			tx := &types.Transaction{Source: srcs[r.Intn(len(srcs))], Target: srcs[r.Intn(len(srcs))], Type: []int32{0, 100, 188, 200, -1, 1<<31 - 1}[r.Intn(6)],
				Time: strs[r.Intn(len(strs))], Data: strs[r.Intn(len(strs))], ExtraData: strs[r.Intn(len(strs))], ExtraDataType: int32(r.Intn(3)),
				Nonce: []uint64{0, 1, 1<<64 - 1}[r.Intn(3)], RequestId: []uint64{0, 7, 1<<64 - 1}[r.Intn(3)], SocketRequestId: strs[r.Intn(3)],
				ChainId: []string{"", "9500", "0", "Z"}[r.Intn(4)]}
			if r.Chance(0.5) {
				sg := node.HarnessKeys[0].SK.Sign(common.Sha256([]byte{byte(k)}))
				tx.Sign = &sg
			}
			if r.Chance(0.4) {
				tx.SubTransactions = []types.UserData{{Address: uint64(r.Intn(3))}}
			} else if r.Chance(0.6) {
				// game / operator events: sub transactions that move balance, coins, fungible tokens and assets
				for j, nsub := 0, r.Range(1, 3); j < nsub; j++ {
					u := types.UserData{Address: uint64(r.Intn(1 << 20))}
					if r.Chance(0.5) {
						u.Balance = []string{"1.5", "0", "1000000000000000000", "-3"}[r.Intn(4)]
					}
					if r.Chance(0.5) {
						u.Coin = map[string]string{"ETH.ETH": fmt.Sprintf("%d", r.Intn(100))}
					}
					if r.Chance(0.6) {
						u.FT = map[string]string{"official-gold": fmt.Sprintf("%d", r.Range(1, 500)), "SYS-ft1": "1"}
					}
					if r.Chance(0.5) {
						u.Assets = map[string]string{"sword-" + strs[r.Intn(3)]: "{\"lv\":3}", "k": ""}
					}
					tx.SubTransactions = append(tx.SubTransactions, u)
				}
			}
			tx.Hash = tx.GenHash()
			w, err := types.MarshalTransaction(tx)
			if err != nil {
				return viol(-1, "marshal-error", "edge-transaction", "%v", err)
			}
			x, err := types.UnMarshalTransaction(w)
			if err != nil {
				return viol(-1, "own-object-not-parseable", "edge-transaction", "%v", err)
			}
			if x.Hash != tx.Hash || x.GenHash() != tx.Hash {
				field := "?"
				switch {
				case x.Source != tx.Source:
					field = "source"
				case x.Target != tx.Target:
					field = "target"
				case x.Data != tx.Data:
					field = "data"
				case x.ExtraData != tx.ExtraData:
					field = "extra-data"
				case x.Time != tx.Time:
					field = "time"
				case x.ChainId != tx.ChainId:
					field = "chain-id"
				case x.Nonce != tx.Nonce:
					field = "nonce"
				case x.Type != tx.Type:
					field = "type"
				}
				return viol(-1, "hash-changed-by-codec", "edge-transaction-"+field, "transaction with source %q target %q re-hashes to %x after marshal/parse, identity %x", tx.Source, tx.Target, x.GenHash().Bytes()[:6], tx.Hash.Bytes()[:6])
			}
			// SocketRequestId is the local client-connection handle: it is not put on the wire by design
			if x.RequestId != tx.RequestId || x.ExtraDataType != tx.ExtraDataType || (tx.Sign == nil) != (x.Sign == nil) ||
				(tx.Sign != nil && !bytes.Equal(tx.Sign.Bytes(), x.Sign.Bytes())) {
				return viol(-1, "field-changed-by-codec", "edge-transaction", "a field outside the hash (request id, extra-data type, signature) changed across marshal/parse")
			}
			if len(x.SubTransactions) != len(tx.SubTransactions) {
				return viol(-1, "field-changed-by-codec", "edge-transaction-sub-transactions", "%d sub transactions sent, %d received", len(tx.SubTransactions), len(x.SubTransactions))
			}
			for j, u := range tx.SubTransactions {
				v := x.SubTransactions[j]
				if v.Address != u.Address || v.Balance != u.Balance || !reflect.DeepEqual(v.Coin, u.Coin) || !reflect.DeepEqual(v.FT, u.FT) || !reflect.DeepEqual(v.Assets, u.Assets) {
					return viol(-1, "field-changed-by-codec", "edge-transaction-sub-transactions", "sub transaction %d sent as %+v arrives as %+v", j, u, v)
				}
			}
			w2, _ := types.MarshalTransaction(&x)
			if !bytes.Equal(w, w2) {
				return viol(-1, "remarshal-differs", "edge-transaction", "re-marshalling the parsed transaction gives different bytes")
			}
			st.Evaluations++
		}
	}
	// bytes handed out by a Marshal call belong to the caller: using the codec again (the node marshals the
	// next message while the previous one is still queued for sending) must not change them
	{
		var lists [][]*types.Transaction
		for _, b := range blocks {
			if len(b.Transactions) > 0 {
				lists = append(lists, b.Transactions)
			}
		}
		extra := []*types.Transaction{node.TransferTx(node.Funded[1], 0, map[string]string{node.Account(6): "2"}, fmt.Sprintf("c9-alias-%d", p.Seed)),
			node.TransferTx(node.Funded[2], 0, map[string]string{node.Account(7): "3"}, fmt.Sprintf("c9-alias2-%d", p.Seed))}
		lists = append(lists, extra, extra[:1])
		type held struct {
			kind string
			got  []byte
			want []byte
		}
		var hs []held
		hold := func(kind string, b []byte, err error) {
			if err == nil {
				hs = append(hs, held{kind, b, append([]byte{}, b...)})
			}
		}
		for round := 0; round < 2; round++ {
			for _, l := range lists {
				b, err := types.MarshalTransactions(l)
				hold("transactions", b, err)
				b, err = types.MarshalTransaction(l[0])
				hold("transaction", b, err)
			}
			for _, blk := range blocks {
				b, err := types.MarshalBlock(blk)
				hold("block", b, err)
				b, err = types.MarshalBlockHeader(blk.Header)
				hold("header", b, err)
			}
			b, err := types.MarshalGroup(g)
			hold("group", b, err)
		}
		for _, h := range hs {
			if !bytes.Equal(h.got, h.want) {
				return viol(-1, "marshalled-bytes-changed-later", h.kind, "bytes returned by a Marshal call for a %s message were modified by later Marshal calls (the buffer is still owned by the codec)", h.kind)
			}
		}
		st.Evaluations++
	}
	// relay: another incarnation accepts the relayed bytes with the same hashes
	{
		rn := node.Boot(genesisImage.Clone(), node.ForksLatestSync, true)
		network.SimInit(cnet.SimNewHandler(c09GroupStub{}, c09MiningStub{}))
		for i, b := range blocks {
			wire, _ := types.MarshalBlock(b)
			pb, err := types.UnMarshalBlock(wire)
			if err != nil {
				return viol(i, "own-object-not-parseable", "relay", "%v", err)
			}
			if res := rn.Chain.AddBlockOnChain(pb); res != types.AddBlockSucc {
				return viol(i, "relayed-block-rejected", "other-incarnation", "block %d accepted by its producer is rejected by another incarnation after relay: %d", i, res)
			}
			if rn.Chain.TopBlock().Hash != b.Header.Hash {
				return viol(i, "hash-changed-by-codec", "relay", "relayed block has another hash on the receiving node")
			}
		}
		st.Fault("relay_between_incarnations")
		n = rn
	}

	// ---- (C) the codec under concurrent callers (verifiers hash MarshalBlock, the chain stores blocks and
	// headers, the pool stores transactions, the relay marshals the block, all on their own goroutines) ----
	if p.Conc > 0 {
		type cobj struct {
			kind string
			enc  func() ([]byte, error)
			ref  []byte
			hash func() common.Hash // identifying hash recomputed from the object (nil: none)
			want common.Hash
		}
		var objs []cobj
		for _, b := range blocks {
			b := b
			objs = append(objs, cobj{kind: "block", enc: func() ([]byte, error) { return types.MarshalBlock(b) }},
				cobj{kind: "header", enc: func() ([]byte, error) { return types.MarshalBlockHeader(b.Header) }, hash: func() common.Hash { return b.Header.GenHash() }, want: b.Header.Hash})
			if len(b.Transactions) > 0 {
				t0 := b.Transactions[0]
				objs = append(objs, cobj{kind: "transactions", enc: func() ([]byte, error) { return types.MarshalTransactions(b.Transactions) }},
					cobj{kind: "transaction", enc: func() ([]byte, error) { return types.MarshalTransaction(t0) }})
				if t0.Type != types.TransactionTypeETHTX {
					objs[len(objs)-1].hash, objs[len(objs)-1].want = func() common.Hash { return t0.GenHash() }, t0.Hash
				}
			}
		}
		objs = append(objs, cobj{kind: "group", enc: func() ([]byte, error) { return types.MarshalGroup(g) }})
		for i := range objs {
			objs[i].ref, _ = objs[i].enc() // sequential reference
		}
		var cviol *simrt.Violation
		var names []string
		var bodies []func()
		for k := 0; k < p.Conc; k++ {
			k := k
			names = append(names, fmt.Sprintf("codec-user-%d", k))
			bodies = append(bodies, func() {
				for round := 0; round < 6 && cviol == nil; round++ {
					o := objs[(k*7+round*3)%len(objs)]
					got, err := o.enc()
					if (err != nil || !bytes.Equal(got, o.ref)) && cviol == nil {
						cviol = viol(-1, "concurrent-marshal-corrupted", o.kind, "caller %d of %d concurrent callers received bytes for its %s that differ from the bytes the same call returns alone (err=%v)", k, p.Conc, o.kind, err)
					}
					if o.hash != nil && cviol == nil {
						if h := o.hash(); h != o.want {
							cviol = viol(-1, "concurrent-hash-wrong", o.kind, "caller %d of %d concurrent callers re-hashed its %s to %x, its identifying hash is %x", k, p.Conc, o.kind, h.Bytes()[:6], o.want.Bytes()[:6])
						}
					}
				}
			})
		}
		st.Fault("concurrent_codec_callers")
		cres := simsched.Run(simsched.Options{Seed: p.SchedSeed ^ 0xc0dec, Policy: "random", MaxPreempt: -1, MaxSteps: 2000000}, names, bodies)
		if cres.Panic != nil {
			return viol(-1, "parser-panics", c09PanicWhere(fmt.Sprint(cres.Panic)), "the codec panicked under concurrent callers: %v", cres.Panic)
		}
		if cviol != nil {
			return cviol
		}
		st.Evaluations++
	}

	// ---- (B) total: corrupted deliveries ----
	sample := blocks[len(blocks)-1]
	for _, b := range blocks {
		if len(b.Transactions) > 0 {
			sample = b
		}
	}
	var stx *types.Transaction
	if len(sample.Transactions) > 0 {
		stx = sample.Transactions[0]
	} else {
		stx = node.TransferTx(node.Funded[0], 0, map[string]string{node.Account(5): "1"}, "c9-sample")
	}
	base := map[string][]byte{}
	base["tx"], _ = types.MarshalTransaction(stx)
	base["txs"], _ = types.MarshalTransactions([]*types.Transaction{stx, stx})
	base["block"], _ = types.MarshalBlock(sample)
	base["header"], _ = types.MarshalBlockHeader(sample.Header)
	base["group"], _ = types.MarshalGroup(g)
	bh := sample.Header.Height
	base["txreq"], _ = proto.Marshal(&middleware_pb.TransactionRequestMessage{CurrentBlockHash: sample.Header.Hash.Bytes(), BlockHeight: &bh, BlockPv: []byte{1},
		TransactionHashes: []*middleware_pb.TransactionHash{{Hash: stx.Hash.Bytes(), SubHash: stx.SubHash.Bytes()}}})
	// consensus messages as the consensus layer's encoders put them on the wire
	{
		var seed [32]byte
		copy(seed[:], simrt.NewRand(p.Seed^0xc0de).Bytes(32))
		sk := groupsig.NewSeckeyFromBigInt(new(big.Int).SetBytes(seed[:31]))
		pk := groupsig.GeneratePubkey(*sk)
		id := groupsig.DeserializeID(common.Sha256(seed[:]))
		sig := groupsig.Sign(*sk, sample.Header.Hash.Bytes())
		ver := int32(1)
		cnt := int32(3)
		sd := &middleware_pb.SignData{DataHash: sample.Header.Hash.Bytes(), DataSign: sig.Serialize(), SignMember: id.Serialize(), Version: &ver}
		base["cast"], _ = proto.Marshal(&middleware_pb.ConsensusCastMessage{Bh: types.BlockHeaderToPb(sample.Header), GroupID: sample.Header.GroupId, Sign: sd,
			ProveHash: [][]byte{common.Sha256([]byte{1}), common.Sha256([]byte{2})}})
		base["verify"], _ = proto.Marshal(&middleware_pb.ConsensusVerifyMessage{BlockHash: sample.Header.Hash.Bytes(), RandomSign: sig.Serialize(), Sign: sd})
		base["keypiece"], _ = proto.Marshal(&middleware_pb.ConsensusSharePieceMessage{GHash: common.Sha256([]byte{3}), Dest: id.Serialize(),
			SharePiece: &middleware_pb.SharePiece{Seckey: sk.Serialize(), Pubkey: pk.Serialize()}, MemCnt: &cnt, Sign: sd})
		base["signpk"], _ = proto.Marshal(&middleware_pb.ConsensusSignPubKeyMessage{GHash: common.Sha256([]byte{3}), GroupID: id.Serialize(), SignPK: pk.Serialize(), MemCnt: &cnt, SignData: sd})
		for _, k := range []string{"cast", "verify", "keypiece", "signpk"} {
			if len(base[k]) == 0 {
				panic(runner.InfraError{Msg: "C09: cannot encode the consensus message " + k})
			}
		}
	}
	pbOf := func(kind string) proto.Message {
		switch kind {
		case "cast":
			return new(middleware_pb.ConsensusCastMessage)
		case "verify":
			return new(middleware_pb.ConsensusVerifyMessage)
		case "keypiece":
			return new(middleware_pb.ConsensusSharePieceMessage)
		case "signpk":
			return new(middleware_pb.ConsensusSignPubKeyMessage)
		case "tx":
			return new(middleware_pb.Transaction)
		case "txs":
			return new(middleware_pb.TransactionSlice)
		case "block":
			return new(middleware_pb.Block)
		case "header":
			return new(middleware_pb.BlockHeader)
		case "group":
			return new(middleware_pb.Group)
		case "txreq":
			return new(middleware_pb.TransactionRequestMessage)
		}
		return nil
	}
	tuples := map[string]bool{}
	var firstPanic *simrt.Violation
	deliver := func() {
		for i, c := range p.Corrupt {
			if firstPanic != nil {
				return
			}
			st.Ops++
			inner, code := c.Msg, uint32(0)
			switch c.Msg {
			case "env-block":
				inner, code = "block", network.NewBlockMsg
			case "env-txs":
				inner, code = "txs", network.TransactionGotMsg
			case "env-txreq":
				inner, code = "txreq", network.ReqTransactionMsg
			case "env-raw":
				inner, code = "tx", network.TransactionGotMsg
			case "env-cast":
				inner, code = "cast", network.CastVerifyMsg
			case "env-verify":
				inner, code = "verify", network.VerifiedCastMsg
			case "env-keypiece":
				inner, code = "keypiece", network.KeyPieceMsg
			case "env-signpk":
				inner, code = "signpk", network.SignPubkeyMsg
			}
			if inner == "cast" || inner == "verify" || inner == "keypiece" || inner == "signpk" {
				st.Fault("consensus_message_corrupted")
			}
			body := c09Corrupt(base[inner], c, pbOf(inner), r)
			if body == nil {
				st.Probe("corruption_not_applicable")
				continue
			}
			st.Fault("corrupt_" + c.Kind)
			st.Evaluations++
			outcome := "ok"
			if c.Via == "net" {
				var env []byte
				if c.Msg == "env-raw" {
					// the envelope itself is corrupted
					e, _ := network.SimMarshalMessage(network.Message{Code: code, Body: base[inner]})
					env = c09Corrupt(e, c, new(middleware_pb.Message), r)
					if env == nil {
						continue
					}
				} else {
					env, _ = network.SimMarshalMessage(network.Message{Code: code, Body: body})
				}
				how := "envelope"
				where, msg := guarded(func() {
					if c.Arg%2 == 0 {
						network.SimDeliver(env, "peer-9")
						return
					}
					// as a websocket frame relayed by the gateway: protocol header (method, source, ...) + body;
					// for the to-manager method the body starts with a 32-byte network id
					methods := network.SimMethods()
					mi := (c.Arg / 2) % len(methods)
					body := env
					if mi == 3 {
						body = append(make([]byte, 32), env...)
					}
					frame := network.SimFrameFor(methods[mi], 9, body)
					how = fmt.Sprintf("frame-method%d", mi)
					if (c.Arg/16)%5 == 0 {
						// the frame itself is cut short (below the header size, header only, a few body bytes)
						cut := (c.Arg / 80) % 64
						if cut < len(frame) {
							frame = frame[:cut]
						}
						how += "-truncated"
						st.Fault("frame_truncated")
					}
					network.SimFrame(frame)
				})
				if where != "" {
					firstPanic = viol(i, "parser-panics", where, "receive path panicked on a %s-corrupted %s message delivered as %s: %s", c.Kind, c.Msg, how, msg)
					return
				}
				outcome = "delivered-" + how
			} else {
				var err error
				where, msg := guarded(func() {
					switch c.Msg {
					case "tx":
						_, err = types.UnMarshalTransaction(body)
					case "txs":
						_, err = types.UnMarshalTransactions(body)
					case "block":
						var b *types.Block
						b, err = types.UnMarshalBlock(body)
						if err == nil && b != nil && b.Header != nil {
							b.Header.GenHash()
						}
					case "header":
						var h *types.BlockHeader
						h, err = types.UnMarshalBlockHeader(body)
						if err == nil && h != nil {
							h.GenHash()
						}
					case "group":
						_, err = types.UnMarshalGroup(body)
					}
				})
				if where != "" {
					firstPanic = viol(i, "parser-panics", where, "parser panicked on %s-corrupted %s bytes: %s", c.Kind, c.Msg, msg)
					return
				}
				if err != nil {
					outcome = "error"
				}
			}
			tuples[fmt.Sprintf("%s/%s/%s/%s", c.Msg, c.Kind, outcome, c.Via)] = true
		}
	}
	res := simsched.Run(simsched.Options{Seed: p.SchedSeed, Policy: "random", MaxPreempt: -1, MaxSteps: 400000}, []string{"transport"}, []func(){deliver})
	if firstPanic != nil {
		return firstPanic
	}
	if res.Panic != nil {
		s := fmt.Sprint(res.Panic)
		return viol(-1, "parser-panics", c09PanicWhere(s), "a message handler task panicked on corrupted input: %s", s)
	}
	// no poisoned state: an intact block is still processed
	next, err := n.CastBlock(node.BlockSpec{QN: 1, PV: 3, TimeMs: 999000})
	if err != nil {
		return viol(-1, "node-poisoned-after-garbage", "cast", "after the corrupted deliveries the node cannot cast: %v", err)
	}
	wire, _ := types.MarshalBlock(next)
	env, _ := network.SimMarshalMessage(network.Message{Code: network.NewBlockMsg, Body: wire})
	res = simsched.Run(simsched.Options{Seed: p.SchedSeed + 1, Policy: "random", MaxPreempt: -1}, []string{"transport"}, []func(){func() { network.SimDeliver(env, "peer-1") }})
	if res.Panic != nil {
		return viol(-1, "parser-panics", c09PanicWhere(fmt.Sprint(res.Panic)), "handler panicked on an intact block: %v", res.Panic)
	}
	if n.Chain.TopBlock().Hash != next.Header.Hash {
		return viol(-1, "node-poisoned-after-garbage", "intact-block-not-processed", "an intact NewBlockMsg delivered after the corrupted ones did not become the head")
	}
	for k := range tuples {
		st.Nontrivial(simrt.HashString(k))
		st.State(simrt.HashString(k))
	}
	return nil
}

func (c09) Shrink(raw json.RawMessage) []json.RawMessage {
	var p c09Plan
	json.Unmarshal(raw, &p)
	var out []json.RawMessage
	emit := func(q c09Plan) {
		b, _ := json.Marshal(q)
		out = append(out, b)
	}
	for chunk := len(p.Corrupt) / 2; chunk >= 1; chunk /= 2 {
		for s := 0; s+chunk <= len(p.Corrupt); s += chunk {
			q := p
			q.Corrupt = append(append([]c09C{}, p.Corrupt[:s]...), p.Corrupt[s+chunk:]...)
			emit(q)
		}
	}
	if p.Blocks > 1 {
		q := p
		q.Blocks = 1
		emit(q)
	}
	return out
}
