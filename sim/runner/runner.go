// Package runner drives harnesses: seeded plan generation, worker processes,
// shrinking, replay files, known findings and evidence files.
package runner

import (
	"encoding/json"
	"fmt"
	"io/ioutil"
	"os"
	"os/exec"
	"path/filepath"
	"runtime"
	"sort"
	"strconv"
	"strings"
	"sync"
	"time"

	"com.tuntun.rangers/node/src/zzverif/simrt"
	"com.tuntun.rangers/node/src/zzverif/simsched"
)

// Harness is one property's simulation: plan generator, executor with oracles, shrinker.
type Harness interface {
	ID() string
	Level() string // exploration | fault_enumeration
	// Gen derives a plan (JSON) from one seed. Everything the run does follows from it.
	Gen(seed uint64, tier string) json.RawMessage
	// Exec runs one plan in this process. It must be a pure function of (plan, code).
	Exec(plan json.RawMessage, st *simrt.Stats, log *simrt.Log) *simrt.Violation
	// Shrink proposes simpler plans (fewer ops/faults, simpler arguments, simpler schedule).
	Shrink(plan json.RawMessage) []json.RawMessage
	// Budget returns how many plans to run, plans per worker process and the wall budget.
	Budget(tier string) Budget
	// Describe returns the static part of the evidence.
	Describe() Description
}

type Budget struct {
	Plans        int
	PlansPerProc int
	Wall         time.Duration
	// MinPlans: plans with index below this are executed even when the wall budget is used up
	// (hard cap 5x Wall), so that what a tier covers does not collapse on a loaded machine.
	MinPlans int
}

type Description struct {
	Rule        string
	Assumptions []string
	Real        []string
	Stub        []string
	FaultKinds  []string
	Exhaustive  bool
}

var registry = map[string]Harness{}

func Register(h Harness) { registry[h.ID()] = h }

func Get(id string) Harness { return registry[id] }

func IDs() []string {
	var ids []string
	for k := range registry {
		ids = append(ids, k)
	}
	sort.Strings(ids)
	return ids
}

// ---------------------------------------------------------------------------

type KnownFinding struct {
	Property string `json:"property"`
	Class    string `json:"class"` // exact violation class this entry covers
	What     string `json:"what"`
	Status   string `json:"status"` // "known" or "fixed"
	Commit   string `json:"commit,omitempty"`
}

type knownFile struct {
	Findings []KnownFinding `json:"findings"`
}

func LoadKnown(path string) []KnownFinding {
	b, err := ioutil.ReadFile(path)
	if err != nil {
		return nil
	}
	var kf knownFile
	if err := json.Unmarshal(b, &kf); err != nil {
		fmt.Fprintf(os.Stderr, "known findings file unreadable: %v\n", err)
		os.Exit(2)
	}
	return kf.Findings
}

func matchKnown(known []KnownFinding, v *simrt.Violation) *KnownFinding {
	for i := range known {
		k := &known[i]
		if k.Status == "fixed" {
			continue // a fixed entry suppresses nothing
		}
		if k.Property == v.Property && k.Class == v.Class() {
			return k
		}
	}
	return nil
}

// ---------------------------------------------------------------------------

type WorkerResult struct {
	From, To  int
	Executed  int
	Stats     *simrt.Stats     `json:"stats"`
	Violation *simrt.Violation `json:"violation,omitempty"`
	Plan      json.RawMessage  `json:"plan,omitempty"`
	PlanSeed  uint64           `json:"plan_seed,omitempty"`
	PlanIndex int              `json:"plan_index,omitempty"`
	LogLines  []string         `json:"log,omitempty"`
	WallS     float64          `json:"wall_s"`
}

// RaceHarness is implemented by harnesses that have a race-detector stage: seeded concurrent plans run
// in the -race build whose task hand-off is hidden from the detector; a report counts only if the
// stacks of BOTH accesses contain a frame matching one of RaceFrames (package path fragments).
type RaceHarness interface {
	RacePlan(seed uint64, i int) json.RawMessage
	RaceFrames() []string
}

func PlanSeed(seed uint64, id string, index int) uint64 {
	return simrt.Mix(simrt.Mix(seed, simrt.HashString(id)), uint64(index)+1)
}

// RunWorker executes plans [from,to) of the seed's sequence in this process.
func RunWorker(h Harness, tier string, seed uint64, from, to int, deadline time.Time, known []KnownFinding) *WorkerResult {
	res := &WorkerResult{From: from, To: to, Stats: simrt.NewStats()}
	t0 := time.Now()
	for i := from; i < to; i++ {
		if time.Now().After(deadline) {
			break
		}
		ps := PlanSeed(seed, h.ID(), i)
		plan := h.Gen(ps, tier)
		log := &simrt.Log{Cap: 4000}
		v := safeExec(h, plan, res.Stats, log)
		res.Executed++
		res.Stats.Plans++
		if i == from {
			var pv interface{}
			json.Unmarshal(plan, &pv)
			res.Stats.Sample(map[string]interface{}{"plan_seed": ps, "plan": pv})
		}
		if v != nil {
			if k := matchKnown(known, v); k != nil {
				res.Stats.Known[k.Class]++
				continue
			}
			res.Violation = v
			res.Plan = plan
			res.PlanSeed = ps
			res.PlanIndex = i
			res.LogLines = log.Lines
			break
		}
	}
	res.WallS = time.Since(t0).Seconds()
	res.Stats.Seal()
	return res
}

// InfraError is raised (as a panic value) by harness code for problems that are
// not property violations (harness bug, watchdog, nondeterminism): exit code 2.
type InfraError struct{ Msg string }

func (e InfraError) Error() string { return e.Msg }

func safeExec(h Harness, plan json.RawMessage, st *simrt.Stats, log *simrt.Log) (v *simrt.Violation) {
	defer func() {
		if r := recover(); r != nil {
			if ie, ok := r.(InfraError); ok {
				fmt.Fprintf(os.Stderr, "INFRA: %s\nplan=%s\n", ie.Msg, string(plan))
				os.Exit(2)
			}
			buf := make([]byte, 1<<14)
			n := runtime.Stack(buf, false)
			v = simrt.Violationf(h.ID(), "host-panic", panicWhere(string(buf[:n])), -1, "panic: %v\n%s", r, string(buf[:n]))
		}
	}()
	if simrt.SimSpanHook != nil {
		simrt.SimSpanHook() // start of this plan's span
		defer func() { st.SimTimeMs += simrt.SimSpanHook() }()
	}
	simsched.TakeEscaped()
	defer func() {
		for site, n := range simsched.TakeEscaped() {
			for i := 0; i < n; i++ {
				st.Probe("escaped_go:" + site)
			}
		}
	}()
	return h.Exec(plan, st, log)
}

// panicWhere extracts the first repository (non-harness) frame of a panic stack:
// a coarse, value-free location for the violation class.
func panicWhere(stack string) string {
	lines := strings.Split(stack, "\n")
	for _, l := range lines {
		l = strings.TrimSpace(l)
		if strings.HasPrefix(l, "com.tuntun.rangers/node/src/") && !strings.Contains(l, "/zzverif/") && !strings.Contains(l, "zzverif_") {
			l = strings.Replace(strings.Replace(l, "(*", "", -1), ").", ".", -1)
			if i := strings.Index(l, "("); i > 0 {
				l = l[:i]
			}
			return strings.TrimPrefix(l, "com.tuntun.rangers/node/src/")
		}
	}
	return "harness"
}

// ---------------------------------------------------------------------------

type Options struct {
	Tier      string
	Seed      uint64
	VerifDir  string // /verif
	Self      string // path of this binary
	Procs     int
	PlansOver int           // override plan count (0 = budget)
	WallOver  time.Duration // override wall (0 = budget)
}

type ReplayFile struct {
	Property string          `json:"property"`
	Seed     uint64          `json:"seed"`
	PlanSeed uint64          `json:"plan_seed"`
	Class    string          `json:"class"`
	Detail   string          `json:"detail"`
	Event    int             `json:"event"`
	Shrunk   bool            `json:"shrunk"`
	Plan     json.RawMessage `json:"plan"`
	Log      []string        `json:"log,omitempty"`
}

// Check is the parent: runs the tier, aggregates, handles violations, writes evidence.
// Returns the process exit code.
func Check(h Harness, o Options) int {
	t0 := time.Now()
	b := h.Budget(o.Tier)
	if o.PlansOver > 0 {
		b.Plans = o.PlansOver
	}
	if o.WallOver > 0 {
		b.Wall = o.WallOver
	}
	if b.PlansPerProc <= 0 {
		b.PlansPerProc = 1
	}
	if o.Procs <= 0 {
		o.Procs = runtime.NumCPU()
	}
	deadline := t0.Add(b.Wall)
	hardDeadline := t0.Add(5 * b.Wall)
	if o.PlansOver > 0 || o.WallOver > 0 {
		b.MinPlans = 0
	}
	fmt.Printf("VERIF_SEED=%d property=%s tier=%s plans<=%d wall<=%s procs=%d\n", o.Seed, h.ID(), o.Tier, b.Plans, b.Wall, o.Procs)

	tmp, err := ioutil.TempDir("", "verifsim-"+h.ID()+"-")
	if err != nil {
		fmt.Fprintln(os.Stderr, err)
		return 2
	}
	defer os.RemoveAll(tmp)

	type chunk struct{ from, to int }
	chunks := make(chan chunk, 1024)
	go func() {
		for i := 0; i < b.Plans; i += b.PlansPerProc {
			to := i + b.PlansPerProc
			if to > b.Plans {
				to = b.Plans
			}
			chunks <- chunk{i, to}
		}
		close(chunks)
	}()

	total := simrt.NewStats()
	var mu sync.Mutex
	var firstViol *WorkerResult
	infra := false
	stop := false
	var wg sync.WaitGroup
	for w := 0; w < o.Procs; w++ {
		wg.Add(1)
		go func(w int) {
			defer wg.Done()
			for c := range chunks {
				mu.Lock()
				s := stop
				mu.Unlock()
				dl := deadline
				if c.from < b.MinPlans {
					dl = hardDeadline
				}
				if s || time.Now().After(dl) {
					continue
				}
				out := filepath.Join(tmp, fmt.Sprintf("w%d-%d.json", w, c.from))
				cmd := exec.Command(o.Self, "worker", "-prop", h.ID(), "-tier", o.Tier, "-seed", strconv.FormatUint(o.Seed, 10),
					"-from", strconv.Itoa(c.from), "-to", strconv.Itoa(c.to), "-out", out,
					"-deadline", strconv.FormatInt(dl.UnixNano(), 10), "-verif", o.VerifDir)
				cmd.Dir = tmp
				cmd.Env = append(os.Environ(), "VERIF_WORKDIR="+filepath.Join(tmp, fmt.Sprintf("wd%d", w)))
				outb, err := runWithWatchdog(cmd, 5*b.Wall+5*time.Minute)
				rb, rerr := ioutil.ReadFile(out)
				os.Remove(out)
				if rerr != nil {
					mu.Lock()
					infra = true
					stop = true
					mu.Unlock()
					fmt.Fprintf(os.Stderr, "INFRA: worker %d chunk %d..%d failed: %v\n%s\n", w, c.from, c.to, err, tail(outb, 3000))
					continue
				}
				var wr WorkerResult
				if err := json.Unmarshal(rb, &wr); err != nil {
					mu.Lock()
					infra = true
					stop = true
					mu.Unlock()
					continue
				}
				mu.Lock()
				total.Merge(wr.Stats)
				if wr.Violation != nil {
					if firstViol == nil || wr.PlanIndex < firstViol.PlanIndex {
						firstViol = &wr
					}
					stop = true
				}
				mu.Unlock()
			}
		}(w)
	}
	wg.Wait()
	if infra {
		return 2
	}

	known := LoadKnown(filepath.Join(o.VerifDir, "known_findings.json"))
	code := 0
	violations := 0
	var replayPath string
	if firstViol != nil {
		violations = 1
		rf := &ReplayFile{Property: h.ID(), Seed: o.Seed, PlanSeed: firstViol.PlanSeed, Class: firstViol.Violation.Class(),
			Detail: firstViol.Violation.Detail, Event: firstViol.Violation.Event, Plan: firstViol.Plan, Log: firstViol.LogLines}
		fmt.Printf("violation found: %s\n  %s\n", rf.Class, firstLine(rf.Detail))
		shrunk := shrink(h, o, tmp, rf, time.Now().Add(shrinkBudget(o.Tier)))
		os.MkdirAll(filepath.Join(o.VerifDir, "replays"), 0o755)
		replayPath = filepath.Join(o.VerifDir, "replays", fmt.Sprintf("%s-%d-%d.json", h.ID(), o.Seed, firstViol.PlanIndex))
		wb, _ := json.MarshalIndent(shrunk, "", " ")
		ioutil.WriteFile(replayPath, wb, 0o644)
		// the replay must reproduce in a fresh process
		v2, err := execFresh(o, tmp, h.ID(), shrunk.Plan)
		if err != nil {
			fmt.Fprintf(os.Stderr, "INFRA: replay execution failed: %v\n", err)
			return 2
		}
		if v2 == nil || v2.Class() != shrunk.Class {
			fmt.Fprintf(os.Stderr, "INFRA: replay of %s did not reproduce class %s (got %v): simulator not deterministic\n", replayPath, shrunk.Class, v2)
			return 2
		}
		fmt.Printf("VIOLATION property=%s replay=%s\n", h.ID(), replayPath)
		code = 1
	}
	// known findings: one line each, when the run actually hit it
	for i := range known {
		k := &known[i]
		if k.Property != h.ID() || k.Status == "fixed" {
			continue
		}
		if n := total.Known[k.Class]; n > 0 {
			fmt.Printf("KNOWN-FINDING: property=%s %s (class %s, hit by %d plans)\n", k.Property, k.What, k.Class, n)
		}
	}
	writeEvidence(h, o, total, time.Since(t0), violations)
	fmt.Printf("property=%s tier=%s plans=%d evaluations=%d distinct_nontrivial=%d wall=%.1fs exit=%d\n",
		h.ID(), o.Tier, total.Plans, total.Evaluations, len(total.Distinct), time.Since(t0).Seconds(), code)
	return code
}

func shrinkBudget(tier string) time.Duration {
	if tier == "thorough" {
		return 10 * time.Minute
	}
	return 60 * time.Second
}

func firstLine(s string) string {
	if i := strings.Index(s, "\n"); i >= 0 {
		return s[:i]
	}
	return s
}

func tail(b []byte, n int) string {
	if len(b) > n {
		b = b[len(b)-n:]
	}
	return string(b)
}

func runWithWatchdog(cmd *exec.Cmd, d time.Duration) ([]byte, error) {
	var buf strings.Builder
	cmd.Stdout = &buf
	cmd.Stderr = &buf
	if err := cmd.Start(); err != nil {
		return nil, err
	}
	done := make(chan error, 1)
	go func() { done <- cmd.Wait() }()
	select {
	case err := <-done:
		return []byte(buf.String()), err
	case <-time.After(d):
		cmd.Process.Kill()
		<-done
		return []byte(buf.String()), fmt.Errorf("watchdog: worker exceeded %s", d)
	}
}

// execFresh runs one plan in a fresh process and returns its violation (nil if none).
func execFresh(o Options, tmp, id string, plan json.RawMessage) (*simrt.Violation, error) {
	pf, err := ioutil.TempFile(tmp, "plan-*.json")
	if err != nil {
		return nil, err
	}
	pf.Write(plan)
	pf.Close()
	defer os.Remove(pf.Name())
	out := pf.Name() + ".out"
	defer os.Remove(out)
	cmd := exec.Command(o.Self, "exec", "-prop", id, "-plan", pf.Name(), "-out", out, "-verif", o.VerifDir)
	cmd.Dir = tmp
	cmd.Env = append(os.Environ(), "VERIF_WORKDIR="+pf.Name()+".wd")
	defer os.RemoveAll(pf.Name() + ".wd")
	ob, err := runWithWatchdog(cmd, 5*time.Minute)
	rb, rerr := ioutil.ReadFile(out)
	if rerr != nil {
		return nil, fmt.Errorf("exec failed: %v: %s", err, tail(ob, 2000))
	}
	var wr WorkerResult
	if err := json.Unmarshal(rb, &wr); err != nil {
		return nil, err
	}
	return wr.Violation, nil
}

func shrink(h Harness, o Options, tmp string, rf *ReplayFile, deadline time.Time) *ReplayFile {
	cur := *rf
	tried := 0
	for {
		improved := false
		cands := h.Shrink(cur.Plan)
		for _, c := range cands {
			if time.Now().After(deadline) {
				fmt.Printf("shrink: budget exhausted after %d candidates\n", tried)
				return &cur
			}
			if len(c) >= len(cur.Plan) && string(c) == string(cur.Plan) {
				continue
			}
			tried++
			v, err := execFresh(o, tmp, h.ID(), c)
			if err != nil || v == nil || v.Class() != cur.Class {
				continue
			}
			cur.Plan = c
			cur.Detail = v.Detail
			cur.Event = v.Event
			cur.Shrunk = true
			cur.Log = nil
			improved = true
			break
		}
		if !improved {
			break
		}
	}
	fmt.Printf("shrink: %d candidates tried, plan %d -> %d bytes\n", tried, len(rf.Plan), len(cur.Plan))
	return &cur
}

// Replay re-executes a replay file in this process; exit code 1 + VIOLATION line when reproduced.
func Replay(path string, verifDir string) int {
	b, err := ioutil.ReadFile(path)
	if err != nil {
		fmt.Fprintln(os.Stderr, err)
		return 2
	}
	var rf ReplayFile
	if err := json.Unmarshal(b, &rf); err != nil {
		fmt.Fprintln(os.Stderr, err)
		return 2
	}
	h := Get(rf.Property)
	if h == nil {
		fmt.Fprintf(os.Stderr, "unknown property %s\n", rf.Property)
		return 2
	}
	fmt.Printf("replaying %s (VERIF_SEED=%d plan_seed=%d) expecting %s\n", path, rf.Seed, rf.PlanSeed, rf.Class)
	st := simrt.NewStats()
	log := &simrt.Log{}
	v := safeExec(h, rf.Plan, st, log)
	for _, l := range log.Lines {
		fmt.Println("  ", l)
	}
	if v == nil {
		fmt.Println("replay: no violation (property holds on this tree for this plan)")
		return 0
	}
	fmt.Printf("replay: %s\n  %s\n", v.Class(), v.Detail)
	if v.Class() != rf.Class {
		fmt.Printf("replay: different class than recorded (%s)\n", rf.Class)
	}
	fmt.Printf("VIOLATION property=%s replay=%s\n", rf.Property, path)
	return 1
}

// ---------------------------------------------------------------------------

func writeEvidence(h Harness, o Options, st *simrt.Stats, wall time.Duration, violations int) {
	d := h.Describe()
	hours := wall.Hours()
	if hours <= 0 {
		hours = 1e-9
	}
	samples := st.Samples
	if len(samples) == 0 {
		samples = []interface{}{"(no plan executed)"}
	}
	faults := map[string]int64{}
	for _, k := range d.FaultKinds {
		faults[k] = 0
	}
	for k, v := range st.Faults {
		faults[k] = v
	}
	var zeroProbes []string
	for k, v := range st.Probes {
		if v == 0 {
			zeroProbes = append(zeroProbes, k)
		}
	}
	sort.Strings(zeroProbes)
	ev := map[string]interface{}{
		"property_id": h.ID(),
		"tier":        o.Tier,
		"seed":        int64(o.Seed & 0x7fffffffffffffff),
		"level":       h.Level(),
		"coverage": map[string]interface{}{
			"evaluations":             st.Evaluations,
			"distinct_nontrivial":     len(st.Distinct),
			"rule":                    d.Rule,
			"samples":                 samples,
			"exhaustive":              d.Exhaustive,
			"simulated_runs":          st.Plans,
			"simulated_runs_per_hour": int64(float64(st.Plans) / hours),
			"seeds":                   st.Plans,
			"operations":              st.Ops,
			"simulated_time_s":        float64(st.SimTimeMs) / 1000.0,
			"faults_fired":            faults,
			"probes":                  st.Probes,
			"distinct_states":         len(st.States),
			"components_real":         d.Real,
			"components_stub":         d.Stub,
			"known_findings_hit":      st.Known,
			"instrumented":            os.Getenv("VERIF_INSTRUMENTED") == "1",
		},
		"assumptions": d.Assumptions,
		"wall_s":      wall.Seconds(),
		"violations":  violations,
	}
	b, _ := json.MarshalIndent(ev, "", " ")
	os.MkdirAll(filepath.Join(o.VerifDir, "evidence"), 0o755)
	ioutil.WriteFile(filepath.Join(o.VerifDir, "evidence", h.ID()+".json"), b, 0o644)
}

// ExecOne executes a single plan in this process (used by shrink and replay verification).
func ExecOne(h Harness, plan json.RawMessage) *WorkerResult {
	res := &WorkerResult{Stats: simrt.NewStats()}
	log := &simrt.Log{Cap: 4000}
	res.Violation = safeExec(h, plan, res.Stats, log)
	res.Executed = 1
	res.Plan = plan
	res.LogLines = log.Lines
	res.Stats.Seal()
	return res
}

// SelfTest checks determinism: every plan is executed twice in this process and the
// event logs and outcomes must be byte-identical. The cross-process / GOMAXPROCS part
// of the determinism proof is done by bin/selftest, which compares the digests printed here.
func SelfTest(h Harness, tier string, seed uint64, n int) int {
	bad := 0
	for i := 0; i < n; i++ {
		ps := PlanSeed(seed, h.ID(), i)
		plan := h.Gen(ps, tier)
		plan2 := h.Gen(ps, tier)
		if string(plan) != string(plan2) {
			fmt.Printf("NONDETERMINISTIC plan generation: property=%s plan_seed=%d\n", h.ID(), ps)
			bad++
			continue
		}
		l1, l2 := &simrt.Log{}, &simrt.Log{}
		v1 := safeExec(h, plan, simrt.NewStats(), l1)
		v2 := safeExec(h, plan, simrt.NewStats(), l2)
		c1, c2 := v1.Class(), v2.Class()
		if l1.Hash() != l2.Hash() || c1 != c2 {
			fmt.Printf("NONDETERMINISTIC execution: property=%s plan_seed=%d class1=%q class2=%q\n", h.ID(), ps, c1, c2)
			for j := 0; j < len(l1.Lines) && j < len(l2.Lines); j++ {
				if l1.Lines[j] != l2.Lines[j] {
					fmt.Printf("  first divergence at line %d:\n   %s\n   %s\n", j, l1.Lines[j], l2.Lines[j])
					break
				}
			}
			bad++
		}
		fmt.Printf("digest %s %d %016x %d %s\n", h.ID(), ps, l1.Hash(), len(l1.Lines), c1)
	}
	if bad > 0 {
		return 2
	}
	return 0
}
