// verifinstr rewrites, in a scratch output directory, the constructs of the
// go-rangers sources whose behaviour is nondeterministic in plain Go:
//   - `range` over a map            -> range over simmap.Keys(m, site) (seeded order)
//   - sync.Map.Range                -> simmap.SyncMapRange(&m, site, f)
//
// Output files are consumed through `go build -overlay`; /repo is never written.
//
// usage: verifinstr -repo /repo -modfile W/go.mod -out W/instr [-pkgs pattern,...]
package main

import (
	"bytes"
	"encoding/json"
	"flag"
	"fmt"
	"go/ast"
	"go/format"
	"go/token"
	"go/types"
	"os"
	"path/filepath"
	"strings"

	"golang.org/x/tools/go/ast/astutil"
	"golang.org/x/tools/go/packages"
)

const simmapPath = "com.tuntun.rangers/node/src/zzverif/simmap"
const simschedPath = "com.tuntun.rangers/node/src/zzverif/simsched"

func main() {
	repo := flag.String("repo", "/repo", "")
	modfile := flag.String("modfile", "", "")
	out := flag.String("out", "", "")
	overlay := flag.String("overlay", "", "overlay json passed to go list")
	pkgs := flag.String("pkgs", "", "comma separated package patterns")
	yieldPkgs := flag.String("yield", "", "comma separated import-path suffixes whose functions get yield points, lock and go rewrites")
	stmtPkgs := flag.String("yieldstmts", "", "comma separated import-path suffixes (also yield packages) that additionally get a yield point before every statement that calls something")
	flag.Parse()
	bf := []string{"-tags=verif"}
	if *modfile != "" {
		bf = append(bf, "-modfile="+*modfile)
	}
	ov := map[string][]byte{}
	if *overlay != "" {
		raw, err := os.ReadFile(*overlay)
		if err != nil {
			fmt.Fprintln(os.Stderr, err)
			os.Exit(2)
		}
		var o struct{ Replace map[string]string }
		if err := json.Unmarshal(raw, &o); err != nil {
			fmt.Fprintln(os.Stderr, err)
			os.Exit(2)
		}
		for dst, src := range o.Replace {
			b, err := os.ReadFile(src)
			if err != nil {
				fmt.Fprintln(os.Stderr, err)
				os.Exit(2)
			}
			ov[dst] = b
		}
	}
	cfg := &packages.Config{
		Mode:       packages.NeedName | packages.NeedFiles | packages.NeedCompiledGoFiles | packages.NeedSyntax | packages.NeedTypes | packages.NeedTypesInfo | packages.NeedImports | packages.NeedDeps,
		Dir:        *repo,
		BuildFlags: bf,
		Overlay:    ov,
		Env:        append(os.Environ(), "GOFLAGS=-mod=mod", "GOPROXY=off", "GOSUMDB=off"),
	}
	pats := strings.Split(*pkgs, ",")
	loaded, err := packages.Load(cfg, pats...)
	if err != nil {
		fmt.Fprintln(os.Stderr, "load:", err)
		os.Exit(2)
	}
	nmap, nsync, nfiles, nskip := 0, 0, 0, 0
	nyield, nlock, ngo := 0, 0, 0
	yieldSet := map[string]bool{}
	for _, y := range strings.Split(*yieldPkgs, ",") {
		if y != "" {
			yieldSet[y] = true
		}
	}
	stmtSet := map[string]bool{}
	for _, y := range strings.Split(*stmtPkgs, ",") {
		if y != "" {
			stmtSet[y] = true
			yieldSet[y] = true
		}
	}
	nstmt := 0
	for _, p := range loaded {
		if len(p.Errors) > 0 {
			for _, e := range p.Errors {
				fmt.Fprintln(os.Stderr, "pkg error:", p.PkgPath, e)
			}
			os.Exit(2)
		}
		if strings.Contains(p.PkgPath, "/zzverif/") {
			continue
		}
		for i, f := range p.Syntax {
			fname := p.CompiledGoFiles[i]
			if !strings.HasPrefix(fname, *repo+"/") || strings.HasSuffix(fname, "_test.go") {
				continue
			}
			usesC := false
			for _, im := range f.Imports {
				if im.Path.Value == `"C"` {
					usesC = true
				}
			}
			if usesC {
				continue
			}
			changed := false
			usedSched := false
			usedMap := false
			doYield := yieldSet[strings.TrimPrefix(p.PkgPath, "com.tuntun.rangers/node/src/")]
			rel, _ := filepath.Rel(*repo, fname)
			astutil.Apply(f, func(c *astutil.Cursor) bool {
				switch n := c.Node().(type) {
				case *ast.RangeStmt:
					tv, ok := p.TypesInfo.Types[n.X]
					if !ok {
						return true
					}
					if _, isMap := tv.Type.Underlying().(*types.Map); !isMap {
						return true
					}
					if !simpleExpr(n.X) {
						nskip++
						fmt.Fprintf(os.Stderr, "skip (map expression not side-effect free): %s:%d\n", rel, p.Fset.Position(n.Pos()).Line)
						return true
					}
					site := fmt.Sprintf("%s:%d", rel, p.Fset.Position(n.Pos()).Line)
					rewriteMapRange(n, site)
					nmap++
					changed = true
					usedMap = true
				case *ast.CallExpr:
					sel, ok := n.Fun.(*ast.SelectorExpr)
					if !ok || sel.Sel.Name != "Range" || len(n.Args) != 1 {
						return true
					}
					tv, ok := p.TypesInfo.Types[sel.X]
					if !ok {
						return true
					}
					t := tv.Type
					ptr := false
					if pt, ok := t.(*types.Pointer); ok {
						t = pt.Elem()
						ptr = true
					}
					named, ok := t.(*types.Named)
					if !ok || named.Obj().Pkg() == nil || named.Obj().Pkg().Path() != "sync" || named.Obj().Name() != "Map" {
						return true
					}
					site := fmt.Sprintf("%s:%d", rel, p.Fset.Position(n.Pos()).Line)
					var recv ast.Expr = sel.X
					if !ptr {
						recv = &ast.UnaryExpr{Op: token.AND, X: sel.X}
					}
					n.Fun = &ast.SelectorExpr{X: ast.NewIdent("zzsimmap"), Sel: ast.NewIdent("SyncMapRange")}
					n.Args = []ast.Expr{recv, &ast.BasicLit{Kind: token.STRING, Value: fmt.Sprintf("%q", site)}, n.Args[0]}
					nsync++
					changed = true
					usedMap = true
				}
				return true
			}, nil)
			if stmtSet[strings.TrimPrefix(p.PkgPath, "com.tuntun.rangers/node/src/")] {
				// statement-level yield points: before every call statement / assignment from a call, so that
				// check-then-act sequences and multi-step updates inside one function can be interleaved
				callsSomething := func(st ast.Stmt) bool {
					var e []ast.Expr
					switch x := st.(type) {
					case *ast.ExprStmt:
						e = []ast.Expr{x.X}
					case *ast.AssignStmt:
						e = x.Rhs
					default:
						return false
					}
					found := false
					for _, x := range e {
						ast.Inspect(x, func(n ast.Node) bool {
							if _, ok := n.(*ast.FuncLit); ok {
								return false
							}
							if c, ok := n.(*ast.CallExpr); ok {
								if tv, ok := p.TypesInfo.Types[c.Fun]; ok && tv.IsType() {
									return true // conversion
								}
								if id, ok := c.Fun.(*ast.Ident); ok {
									if _, isBuiltin := p.TypesInfo.Uses[id].(*types.Builtin); isBuiltin {
										return true
									}
								}
								found = true
							}
							return true
						})
					}
					return found
				}
				withYields := func(list []ast.Stmt) []ast.Stmt {
					var out []ast.Stmt
					for _, st := range list {
						if callsSomething(st) {
							site := fmt.Sprintf("%s:%d", rel, p.Fset.Position(st.Pos()).Line)
							out = append(out, &ast.ExprStmt{X: &ast.CallExpr{Fun: &ast.SelectorExpr{X: ast.NewIdent("zzsimsched"), Sel: ast.NewIdent("Yield")},
								Args: []ast.Expr{&ast.BasicLit{Kind: token.STRING, Value: fmt.Sprintf("%q", site)}}}})
							nstmt++
							changed, usedSched = true, true
						}
						out = append(out, st)
					}
					return out
				}
				ast.Inspect(f, func(n ast.Node) bool {
					switch x := n.(type) {
					case *ast.BlockStmt:
						x.List = withYields(x.List)
					case *ast.CaseClause:
						x.Body = withYields(x.Body)
					case *ast.CommClause:
						x.Body = withYields(x.Body)
					}
					return true
				})
			}
			if doYield {
				astutil.Apply(f, func(c *astutil.Cursor) bool {
					switch n := c.Node().(type) {
					case *ast.FuncDecl:
						if n.Body == nil {
							return true
						}
						name := n.Name.Name
						if n.Recv != nil && len(n.Recv.List) == 1 {
							name = recvName(n.Recv.List[0].Type) + "." + name
						}
						site := filepath.Base(filepath.Dir(rel)) + "." + name
						y := &ast.ExprStmt{X: &ast.CallExpr{Fun: &ast.SelectorExpr{X: ast.NewIdent("zzsimsched"), Sel: ast.NewIdent("Yield")},
							Args: []ast.Expr{&ast.BasicLit{Kind: token.STRING, Value: fmt.Sprintf("%q", site)}}}}
						n.Body.List = append([]ast.Stmt{y}, n.Body.List...)
						nyield++
						changed, usedSched = true, true
					case *ast.DeferStmt:
						// defer wg.Done()  ->  defer zzsimsched.WGDone(&wg)
						if sel, ok := n.Call.Fun.(*ast.SelectorExpr); ok && sel.Sel.Name == "Done" && len(n.Call.Args) == 0 {
							if recv := waitGroupRecv(p.TypesInfo, sel.X); recv != nil {
								n.Call.Fun = &ast.SelectorExpr{X: ast.NewIdent("zzsimsched"), Sel: ast.NewIdent("WGDone")}
								n.Call.Args = []ast.Expr{recv}
								nlock++
								changed, usedSched = true, true
							}
						}
					case *ast.ExprStmt:
						call, ok := n.X.(*ast.CallExpr)
						if !ok {
							return true
						}
						if sel, ok := call.Fun.(*ast.SelectorExpr); ok && (sel.Sel.Name == "Done" || sel.Sel.Name == "Wait" || sel.Sel.Name == "Add") {
							if recv := waitGroupRecv(p.TypesInfo, sel.X); recv != nil {
								site := fmt.Sprintf("%s:%d", rel, p.Fset.Position(n.Pos()).Line)
								switch {
								case sel.Sel.Name == "Add" && len(call.Args) == 1:
									call.Args = []ast.Expr{recv, call.Args[0]}
								case sel.Sel.Name == "Done" && len(call.Args) == 0:
									call.Args = []ast.Expr{recv}
								case sel.Sel.Name == "Wait" && len(call.Args) == 0:
									call.Args = []ast.Expr{recv, &ast.BasicLit{Kind: token.STRING, Value: fmt.Sprintf("%q", site)}}
								default:
									return true
								}
								call.Fun = &ast.SelectorExpr{X: ast.NewIdent("zzsimsched"), Sel: ast.NewIdent("WG" + sel.Sel.Name)}
								nlock++
								changed, usedSched = true, true
								return true
							}
						}
						if len(call.Args) != 0 {
							return true
						}
						sel, ok := call.Fun.(*ast.SelectorExpr)
						if !ok || (sel.Sel.Name != "Lock" && sel.Sel.Name != "RLock") {
							return true
						}
						tv, ok := p.TypesInfo.Types[sel.X]
						if !ok {
							return true
						}
						t := tv.Type
						ptr := false
						if pt, ok := t.(*types.Pointer); ok {
							t, ptr = pt.Elem(), true
						}
						named, ok := t.(*types.Named)
						if !ok || named.Obj().Pkg() == nil || named.Obj().Pkg().Path() != "sync" || (named.Obj().Name() != "Mutex" && named.Obj().Name() != "RWMutex") {
							return true
						}
						if sel.Sel.Name == "RLock" && named.Obj().Name() != "RWMutex" {
							return true
						}
						var recv ast.Expr = sel.X
						if !ptr {
							recv = &ast.UnaryExpr{Op: token.AND, X: sel.X}
						}
						site := fmt.Sprintf("%s:%d", rel, p.Fset.Position(n.Pos()).Line)
						call.Fun = &ast.SelectorExpr{X: ast.NewIdent("zzsimsched"), Sel: ast.NewIdent(sel.Sel.Name)}
						call.Args = []ast.Expr{recv, &ast.BasicLit{Kind: token.STRING, Value: fmt.Sprintf("%q", site)}}
						nlock++
						changed, usedSched = true, true
					}
					return true
				}, func(c *astutil.Cursor) bool {
					// go statements are rewritten on the way up, after their bodies have been instrumented
					switch n := c.Node().(type) {
					case *ast.GoStmt:
						// go f(a, b)  ->  zzsimsched.Go(site, func() { f(a, b) }) with the arguments evaluated now
						callee := "func"
						if lit, isLit := n.Call.Fun.(*ast.FuncLit); !isLit {
							callee = types.ExprString(n.Call.Fun)
						} else {
							// a function literal that loops for ever or waits on channels is a service loop
							ast.Inspect(lit.Body, func(x ast.Node) bool {
								switch y := x.(type) {
								case *ast.ForStmt:
									if y.Cond == nil {
										callee = "func-loop"
									}
								case *ast.SelectStmt:
									callee = "func-loop"
								case *ast.UnaryExpr:
									if y.Op == token.ARROW {
										callee = "func-loop"
									}
								case *ast.RangeStmt:
									if tv, ok := p.TypesInfo.Types[y.X]; ok {
										if _, isChan := tv.Type.Underlying().(*types.Chan); isChan {
											callee = "func-loop"
										}
									}
								}
								return true
							})
						}
						site := fmt.Sprintf("%s:%d:%s", rel, p.Fset.Position(n.Pos()).Line, callee)
						var pre []ast.Stmt
						call := n.Call
						for i, a := range call.Args {
							if _, isLit := a.(*ast.BasicLit); isLit {
								continue
							}
							tmp := ast.NewIdent(fmt.Sprintf("zzarg%d", i))
							pre = append(pre, &ast.AssignStmt{Lhs: []ast.Expr{tmp}, Tok: token.DEFINE, Rhs: []ast.Expr{a}})
							call.Args[i] = tmp
						}
						if fl, ok := call.Fun.(*ast.FuncLit); ok {
							_ = fl // go func(){...}(args): the literal is called inside the task
						}
						goCall := &ast.ExprStmt{X: &ast.CallExpr{Fun: &ast.SelectorExpr{X: ast.NewIdent("zzsimsched"), Sel: ast.NewIdent("Go")},
							Args: []ast.Expr{&ast.BasicLit{Kind: token.STRING, Value: fmt.Sprintf("%q", site)},
								&ast.FuncLit{Type: &ast.FuncType{Params: &ast.FieldList{}}, Body: &ast.BlockStmt{List: []ast.Stmt{&ast.ExprStmt{X: call}}}}}}}
						c.Replace(&ast.BlockStmt{List: append(pre, goCall)})
						ngo++
						changed, usedSched = true, true
					}
					return true
				})
			}
			if !changed {
				continue
			}
			if usedMap {
				astutil.AddNamedImport(p.Fset, f, "zzsimmap", simmapPath)
			}
			if usedSched {
				astutil.AddNamedImport(p.Fset, f, "zzsimsched", simschedPath)
			}
			var buf bytes.Buffer
			if err := format.Node(&buf, p.Fset, f); err != nil {
				fmt.Fprintln(os.Stderr, "format:", fname, err)
				os.Exit(2)
			}
			dst := filepath.Join(*out, rel)
			os.MkdirAll(filepath.Dir(dst), 0o755)
			if err := os.WriteFile(dst, buf.Bytes(), 0o644); err != nil {
				fmt.Fprintln(os.Stderr, err)
				os.Exit(2)
			}
			nfiles++
		}
	}
	fmt.Printf("instrumented: %d map ranges, %d sync.Map ranges, %d function-entry yields, %d statement yields, %d lock sites, %d go statements in %d files (%d skipped)\n", nmap, nsync, nyield, nstmt, nlock, ngo, nfiles, nskip)
}

// waitGroupRecv returns the expression for a *sync.WaitGroup receiver (nil if x is not a wait group).
func waitGroupRecv(info *types.Info, x ast.Expr) ast.Expr {
	tv, ok := info.Types[x]
	if !ok {
		return nil
	}
	t := tv.Type
	ptr := false
	if pt, ok := t.(*types.Pointer); ok {
		t, ptr = pt.Elem(), true
	}
	named, ok := t.(*types.Named)
	if !ok || named.Obj().Pkg() == nil || named.Obj().Pkg().Path() != "sync" || named.Obj().Name() != "WaitGroup" {
		return nil
	}
	if ptr {
		return x
	}
	return &ast.UnaryExpr{Op: token.AND, X: x}
}

func recvName(e ast.Expr) string {
	switch x := e.(type) {
	case *ast.StarExpr:
		return recvName(x.X)
	case *ast.Ident:
		return x.Name
	case *ast.IndexExpr:
		return recvName(x.X)
	}
	return "?"
}

func simpleExpr(e ast.Expr) bool {
	switch x := e.(type) {
	case *ast.Ident:
		return true
	case *ast.SelectorExpr:
		return simpleExpr(x.X)
	case *ast.ParenExpr:
		return simpleExpr(x.X)
	case *ast.StarExpr:
		return simpleExpr(x.X)
	case *ast.IndexExpr:
		return simpleExpr(x.X) && simpleExpr(x.Index)
	case *ast.BasicLit:
		return true
	}
	return false
}

// rewriteMapRange turns
//
//	for k, v := range m { body }
//
// into
//
//	for _, k := range zzsimmap.Keys(m, site) { v, zzok := m[k]; if !zzok { continue }; body }
func rewriteMapRange(n *ast.RangeStmt, site string) {
	m := n.X
	key, val, tok := n.Key, n.Value, n.Tok
	blank := func(e ast.Expr) bool {
		if e == nil {
			return true
		}
		id, ok := e.(*ast.Ident)
		return ok && id.Name == "_"
	}
	id := ast.NewIdent
	n.X = &ast.CallExpr{Fun: &ast.SelectorExpr{X: id("zzsimmap"), Sel: id("Keys")},
		Args: []ast.Expr{m, &ast.BasicLit{Kind: token.STRING, Value: fmt.Sprintf("%q", site)}}}
	n.Key = id("_")
	n.Tok = token.DEFINE
	notOk := &ast.IfStmt{Cond: &ast.UnaryExpr{Op: token.NOT, X: id("zzok")}, Body: &ast.BlockStmt{List: []ast.Stmt{&ast.BranchStmt{Tok: token.CONTINUE}}}}
	var pre []ast.Stmt
	if tok == token.ASSIGN {
		// for k, v = range m: iterate fresh variables and assign
		n.Value = id("zzk")
		if !blank(key) {
			pre = append(pre, &ast.AssignStmt{Lhs: []ast.Expr{key}, Tok: token.ASSIGN, Rhs: []ast.Expr{id("zzk")}})
		}
		pre = append(pre, &ast.AssignStmt{Lhs: []ast.Expr{id("zzv"), id("zzok")}, Tok: token.DEFINE, Rhs: []ast.Expr{&ast.IndexExpr{X: m, Index: id("zzk")}}})
		pre = append(pre, notOk)
		if !blank(val) {
			pre = append(pre, &ast.AssignStmt{Lhs: []ast.Expr{val}, Tok: token.ASSIGN, Rhs: []ast.Expr{id("zzv")}})
		} else {
			pre = append(pre, &ast.AssignStmt{Lhs: []ast.Expr{id("_")}, Tok: token.ASSIGN, Rhs: []ast.Expr{id("zzv")}})
		}
	} else {
		var keyExpr ast.Expr = id("zzk")
		if !blank(key) {
			keyExpr = key
		}
		n.Value = keyExpr
		var lhs ast.Expr = id("_")
		if !blank(val) {
			lhs = val
		}
		pre = append(pre, &ast.AssignStmt{Lhs: []ast.Expr{lhs, id("zzok")}, Tok: token.DEFINE, Rhs: []ast.Expr{&ast.IndexExpr{X: m, Index: keyExpr}}})
		pre = append(pre, notOk)
	}
	n.Body.List = append(pre, n.Body.List...)
}
