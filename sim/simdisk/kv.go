// Package simdisk is the simulated disk: (1) KV, a db.Database for the component
// harnesses with a physical write log, crash images, read and write faults;
// (2) Storage, a cloneable goleveldb storage for whole-node runs (registry.go).
package simdisk

import (
	"errors"
	"sort"

	xdb "com.tuntun.rangers/node/src/middleware/db"
	"github.com/syndtr/goleveldb/leveldb/iterator"
)

var (
	ErrNotFound   = errors.New("simdisk: not found")
	ErrReadFault  = errors.New("simdisk: injected read fault")
	ErrWriteFault = errors.New("simdisk: injected write fault (disk full)")
)

// PhysWrite is one atomic physical write: a Put, a Delete or a whole batch.
type PhysWrite struct {
	Kind string // put | delete | batch
	Keys []string
	Vals [][]byte // nil entry = delete
}

// KV is an in-memory key-value disk. Every completed physical write is appended to
// Log, so that the durable content after any prefix of writes can be rebuilt
// (crash image). Faults are switched on by the harness.
type KV struct {
	data map[string][]byte
	Log  []PhysWrite

	// read faults
	ReadFault   func(key []byte) bool // true => Get returns ErrReadFault
	ReadMissing func(key []byte) bool // true => Get reports not found
	// write fault: the n-th physical write from now (1-based) fails; 0 = none
	FailWriteAt int
	writesSeen  int

	Reads, ReadFaults, WriteFaults int
}

func NewKV() *KV { return &KV{data: map[string][]byte{}} }

// Image returns a new KV holding base plus the first k physical writes of log.
func Image(base map[string][]byte, log []PhysWrite, k int) *KV {
	kv := NewKV()
	for a, b := range base {
		kv.data[a] = b
	}
	for i := 0; i < k && i < len(log); i++ {
		kv.apply(log[i])
	}
	return kv
}

func (kv *KV) Snapshot() map[string][]byte {
	m := make(map[string][]byte, len(kv.data))
	for a, b := range kv.data {
		m[a] = b
	}
	return m
}

func (kv *KV) Len() int { return len(kv.data) }

func (kv *KV) apply(w PhysWrite) {
	for i, k := range w.Keys {
		if w.Vals[i] == nil {
			delete(kv.data, k)
		} else {
			kv.data[k] = w.Vals[i]
		}
	}
}

func (kv *KV) phys(w PhysWrite) error {
	kv.writesSeen++
	if kv.FailWriteAt > 0 && kv.writesSeen == kv.FailWriteAt {
		kv.WriteFaults++
		return ErrWriteFault
	}
	kv.apply(w)
	kv.Log = append(kv.Log, w)
	return nil
}

// ArmWriteFault makes the n-th physical write from now fail (1-based).
func (kv *KV) ArmWriteFault(n int) { kv.writesSeen = 0; kv.FailWriteAt = n }

func cp(b []byte) []byte {
	c := make([]byte, len(b))
	copy(c, b)
	return c
}

func (kv *KV) Put(key, value []byte) error {
	return kv.phys(PhysWrite{Kind: "put", Keys: []string{string(key)}, Vals: [][]byte{cp(value)}})
}

func (kv *KV) Delete(key []byte) error {
	return kv.phys(PhysWrite{Kind: "delete", Keys: []string{string(key)}, Vals: [][]byte{nil}})
}

func (kv *KV) Get(key []byte) ([]byte, error) {
	kv.Reads++
	if kv.ReadFault != nil && kv.ReadFault(key) {
		kv.ReadFaults++
		return nil, ErrReadFault
	}
	if kv.ReadMissing != nil && kv.ReadMissing(key) {
		kv.ReadFaults++
		return nil, ErrNotFound
	}
	v, ok := kv.data[string(key)]
	if !ok {
		return nil, ErrNotFound
	}
	return cp(v), nil
}

func (kv *KV) Has(key []byte) (bool, error) {
	_, ok := kv.data[string(key)]
	return ok, nil
}

func (kv *KV) Close() {}

func (kv *KV) NewBatch() xdb.Batch { return &kvBatch{kv: kv} }

func (kv *KV) NewIterator() iterator.Iterator { return kv.NewIteratorWithPrefix(nil) }

func (kv *KV) NewIteratorWithPrefix(prefix []byte) iterator.Iterator {
	var keys []string
	for k := range kv.data {
		if len(k) >= len(prefix) && k[:len(prefix)] == string(prefix) {
			keys = append(keys, k)
		}
	}
	sort.Strings(keys)
	arr := &kvArray{}
	for _, k := range keys {
		arr.k = append(arr.k, []byte(k))
		arr.v = append(arr.v, kv.data[k])
	}
	return iterator.NewArrayIterator(arr)
}

type kvArray struct{ k, v [][]byte }

func (a *kvArray) Len() int { return len(a.k) }
func (a *kvArray) Search(key []byte) int {
	return sort.Search(len(a.k), func(i int) bool { return string(a.k[i]) >= string(key) })
}
func (a *kvArray) Index(i int) (key, value []byte) { return a.k[i], a.v[i] }

type kvBatch struct {
	kv   *KV
	w    PhysWrite
	size int
}

func (b *kvBatch) Put(key, value []byte) error {
	b.w.Keys = append(b.w.Keys, string(key))
	b.w.Vals = append(b.w.Vals, cp(value))
	b.size += len(value)
	return nil
}

func (b *kvBatch) Write() error {
	w := PhysWrite{Kind: "batch", Keys: append([]string(nil), b.w.Keys...), Vals: append([][]byte(nil), b.w.Vals...)}
	return b.kv.phys(w)
}

func (b *kvBatch) ValueSize() int { return b.size }

func (b *kvBatch) Reset() {
	b.w = PhysWrite{}
	b.size = 0
}
