#!/usr/bin/env python3
"""Write <W>/overlay.json: harness sources appear under <repo>/src/zzverif/,
in-package driver files (overlay/<pkgdir>/*.go) appear inside their packages."""
import json, os, sys
verif, repo, W = sys.argv[1:4]
ov = {}
for root, ds, fs in os.walk(os.path.join(verif, 'sim')):
    for f in fs:
        if f.endswith('.go'):
            p = os.path.join(root, f)
            ov[os.path.join(repo, 'src', 'zzverif', os.path.relpath(p, os.path.join(verif, 'sim')))] = p
odir = os.path.join(verif, 'overlay')
for root, ds, fs in os.walk(odir):
    for f in fs:
        if f.endswith('.go'):
            p = os.path.join(root, f)
            ov[os.path.join(repo, 'src', os.path.relpath(p, odir))] = p
# instrumented files produced by the instrumenter (optional)
idir = os.path.join(W, 'instr')
if os.path.isdir(idir):
    for root, ds, fs in os.walk(idir):
        for f in fs:
            if f.endswith('.go'):
                p = os.path.join(root, f)
                ov[os.path.join(repo, os.path.relpath(p, idir))] = p
json.dump({'Replace': ov}, open(os.path.join(W, 'overlay.json'), 'w'), indent=1)
