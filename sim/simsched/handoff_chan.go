//go:build !simrace
// +build !simrace

package simsched

import "sync"

// Default hand-off: channels and a mutex (they create happens-before edges between
// all tasks, which is what an ordinary build wants).

type parker struct{ c chan struct{} }

func (p *parker) init() { p.c = make(chan struct{}, 1) }
func (p *parker) wake() { p.c <- struct{}{} }
func (p *parker) wait() { <-p.c }

type schedMu struct{ sync.Mutex }

// RaceMode reports whether the hand-off is hidden from the race detector.
const RaceMode = false
