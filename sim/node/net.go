package node

import (
	"sync"

	"com.tuntun.rangers/node/src/network"
)

// SimNet is the simulated transport the node sends through (hook H6). It records
// what the node sends; delivery to the node goes through network.SimDeliver.
type SimNet struct {
	mu   sync.Mutex
	Sent []SentMsg
}

type SentMsg struct {
	Kind string // send spread broadcast stranger jsonrpc reader writer
	To   string
	Msg  network.Message
}

func (s *SimNet) rec(kind, to string, m network.Message) {
	s.mu.Lock()
	if len(s.Sent) < 10000 {
		s.Sent = append(s.Sent, SentMsg{kind, to, m})
	}
	s.mu.Unlock()
}

func (s *SimNet) Send(id string, msg network.Message)               { s.rec("send", id, msg) }
func (s *SimNet) SpreadToGroup(groupId string, msg network.Message) { s.rec("spread", groupId, msg) }
func (s *SimNet) Broadcast(msg network.Message)                     { s.rec("broadcast", "", msg) }
func (s *SimNet) SendToJSONRPC(msg []byte, sessionId string, requestId uint64) {
	s.rec("jsonrpc", sessionId, network.Message{Body: msg})
}
func (s *SimNet) SendToClientReader(id string, msg []byte, nonce uint64) {
	s.rec("reader", id, network.Message{Body: msg})
}
func (s *SimNet) SendToClientWriter(id string, msg []byte, nonce uint64) {
	s.rec("writer", id, network.Message{Body: msg})
}
func (s *SimNet) Init(gateAddr, outerGateAddr string, selfMinerId []byte, consensusHandler network.MsgHandler, isSending bool) {
}
func (s *SimNet) InitTx(tx string)            {}
func (s *SimNet) JoinGroupNet(groupId string) {}
func (s *SimNet) QuitGroupNet(groupId string) {}
func (s *SimNet) SendToStranger(strangerId []byte, msg network.Message) {
	s.rec("stranger", string(strangerId), msg)
}

// Take returns and clears the recorded messages.
func (s *SimNet) Take() []SentMsg {
	s.mu.Lock()
	defer s.mu.Unlock()
	out := s.Sent
	s.Sent = nil
	return out
}
