//go:build verif
// +build verif

package service

// In-package driver for the deterministic simulator (Go -overlay from /verif/overlay).

import (
	"com.tuntun.rangers/node/src/common"
	"com.tuntun.rangers/node/src/middleware/db"
	"com.tuntun.rangers/node/src/middleware/types"
	"com.tuntun.rangers/node/src/storage/account"
	lru "github.com/hashicorp/golang-lru"
)

// SimReset forgets the service singletons of the previous node incarnation.
func SimReset() {
	MinerManagerImpl = nil
	txpoolInstance = nil
	RewardCalculatorImpl = nil
	RefundManagerImpl = nil
}

// SimNewTxPool builds a second, independent pool on its own store (pool-only simulations).
func SimNewTxPool(store string) *TxPool {
	pool := &TxPool{}
	pool.received = newSimpleContainer(rcvTxPoolSize)
	pool.evictedTxs, _ = lru.New(txCacheSize)
	executed, err := db.NewLDBDatabase(store, 128, 128)
	if err != nil {
		panic(err)
	}
	pool.executed = executed
	pool.batch = pool.executed.NewBatch()
	return pool
}

// SimTick is one firing of the pending-pool cycle ticker (simulated clock).
func (pool *TxPool) SimTick() { pool.received.growRing() }

// SimPendingLen / SimRingLen expose container sizes for structural invariants.
func (pool *TxPool) SimPendingLen() int { return pool.received.Len() }
func (pool *TxPool) SimRingLen() int {
	n := 0
	pool.received.txAnnualRingMap.Range(func(k, v interface{}) bool { n++; return true })
	return n
}

// SimRefundAddress is the escrow account of a release height.
func SimRefundAddress(height uint64) common.Address { return RefundManagerImpl.generateAddress(height) }

// SimMinerIterate walks the registry of one miner type on the given state the way
// leader election and the account-uniqueness check do.
func SimMinerIterate(minerType byte, state *account.AccountDB) []*types.Miner {
	var out []*types.Miner
	it := MinerManagerImpl.minerIterator(minerType, state)
	for it.Next() {
		m, _ := it.Current()
		if m != nil {
			c := *m
			out = append(out, &c)
		}
	}
	return out
}

// SimRefundHeight is the release height the refund manager assigns to a refund made at height now.
func SimRefundHeight(now, left uint64, minerType byte, minerId []byte) uint64 {
	return RefundManagerImpl.getRefundHeight(now, left, minerType, minerId, "evm")
}
