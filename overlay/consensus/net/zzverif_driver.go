//go:build verif
// +build verif

package net

// In-package driver for the deterministic simulator (Go -overlay from /verif/overlay).

import (
	"strconv"

	"com.tuntun.rangers/node/src/common"
	"com.tuntun.rangers/node/src/middleware/log"
	lru "github.com/hashicorp/golang-lru"
)

// SimNewHandler builds the consensus message handler over the given processors the way Init does, without
// the ticker goroutine that expires idle group-creation state machines.
func SimNewHandler(gp GroupCreateMessageProcessor, mp MiningMessageProcessor) *ConsensusHandler {
	logger = log.GetLoggerByIndex(log.StateMachineLogConfig, strconv.Itoa(common.InstanceIndex))
	cache, _ := lru.New(50)
	GroupInsideMachines = StateMachines{name: "GroupInsideMachines", generator: &groupInsideMachineGenerator{}, machines: cache}
	// the state machines reach the processors through the package's own handler instance
	MessageHandler.groupCreateMessageProcessor, MessageHandler.miningMessageProcessor = gp, mp
	return MessageHandler
}
