package harness

import (
	"encoding/hex"
	"fmt"
	"sort"

	"com.tuntun.rangers/node/src/common"
	"com.tuntun.rangers/node/src/middleware"
	"com.tuntun.rangers/node/src/middleware/notify"
	"com.tuntun.rangers/node/src/middleware/types"
	"com.tuntun.rangers/node/src/zzverif/evmasm"
	"com.tuntun.rangers/node/src/zzverif/node"
	"com.tuntun.rangers/node/src/zzverif/simdisk"
	"com.tuntun.rangers/node/src/zzverif/simmap"
	"com.tuntun.rangers/node/src/zzverif/simrt"
	"com.tuntun.rangers/node/src/zzverif/simsched"
)

// C17, chain-level plans: the pool as the node's own proposer uses it. Gateway transactions arrive through
// the queued write handler (which pre-executes them on the node's shared latest-state object), nonce-checked
// transactions are added to the pool, the node proposes a block (CastBlock -> PackForCast with the state the
// chain hands it), the block goes on chain, the node proposes again. What CastBlock packed is read off the
// proposed block (transactions + evicted list) and judged by the statement's pack rules against the
// canonical state of the head.

type c17ChainPlan struct {
	Seed   uint64 `json:"seed"`
	Key    int    `json:"key"`    // harness key / account 4+key is the sender
	Gate   int    `json:"gate"`   // gateway transactions pre-executed before the first proposal
	Ahead  []int  `json:"ahead"`  // nonce offsets (relative to the canonical state nonce) of the nonce-checked transactions added to the pool
	Rounds int    `json:"rounds"` // proposals
}

func c17ChainGen(r *simrt.Rand, seed uint64) c17ChainPlan {
	p := c17ChainPlan{Seed: seed, Key: r.Intn(4), Gate: r.Range(0, 3), Rounds: r.Range(1, 3)}
	for i, n := 0, r.Range(1, 4); i < n; i++ {
		p.Ahead = append(p.Ahead, r.Range(0, 3))
	}
	return p
}

func c17ChainExec(p c17ChainPlan, st *simrt.Stats, log *simrt.Log) *simrt.Violation {
	viol := func(ev int, clause, where, f string, a ...interface{}) *simrt.Violation {
		return simrt.Violationf("C17", clause, where, ev, f, a...)
	}
	simmap.Seed = simrt.Mix(p.Seed, 0x6d6170) | 1
	disk := simdisk.NewDisk()
	n := node.Boot(disk, node.ForksLatestSync, true)
	top := n.Chain.TopBlock()
	middleware.AccountDBManagerInstance.Height = top.Height
	sender := node.Account(4 + p.Key%4)
	saddr := common.HexToAddress(sender)
	// fund the sender through a first block so that its transactions can run
	fund := node.TransferTx(node.Funded[0], 0, map[string]string{sender: "500"}, fmt.Sprintf("c17ch-fund-%d", p.Seed))
	if b, err := n.CastBlock(node.BlockSpec{QN: 1, PV: 1, TimeMs: 1000, Txs: []*types.Transaction{fund}}); err != nil || n.Chain.AddBlockOnChain(node.CloneBlock(b)) != types.AddBlockSucc {
		st.Probe("chain_plan_setup_failed")
		return nil
	}
	st.Fault("chain_level_pack")
	canonNonce := func() uint64 {
		s, err := middleware.AccountDBManagerInstance.GetAccountDBByHash(n.Chain.TopBlock().StateTree)
		if err != nil {
			return 0
		}
		return s.GetNonce(saddr)
	}
	middleware.AccountDBManagerInstance.Height = n.Chain.TopBlock().Height
	// gateway transactions: verified, pre-executed on the shared latest-state object, sent to the pool
	for g := 0; g < p.Gate; g++ {
		s := node.TxSpec{K: "xfer", From: 4 + p.Key%4, Nonce: uint64(g), Targets: []node.Target{{A: node.Account((p.Key + 1) % 8), V: "1"}}, Salt: fmt.Sprintf("c17ch-g%d-%d", g, p.Seed), Signed: true}
		tx := s.Build()
		tx.ChainId = common.ChainId(n.Chain.TopBlock().Height)
		tx.Hash = tx.GenHash()
		sg := node.HarnessKeys[p.Key%4].SK.Sign(tx.Hash.Bytes())
		tx.Sign = &sg
		middleware.SimRunWrite(&notify.ClientTransactionMessage{Tx: *tx, UserId: "", Nonce: uint64(7 + g), GateNonce: 0})
		st.Fault("gateway_tx_pre_executed_on_latest_state")
	}
	// a contract creation whose constructor emits an event without topics (LOG0) and one with a topic: their
	// executed records must be retrievable once the block is on chain
	{
		var init evmasm.Code
		init.Push(0).Push(0).Op(0xa0).Log1(0xC0DE, 7).Push(1).Push(0).Op(evmasm.RETURN)
		ct := node.TxSpec{K: "create", From: 1, Data: hex.EncodeToString(init), Gas: 60000000, Salt: fmt.Sprintf("c17ch-log0-%d", p.Seed)}.Build()
		n.Pool.AddTransaction(ct)
	}
	nonceChecked := map[common.Hash]uint64{}
	// the proposals and insertions run as one task of the seeded scheduler: a goroutine the chain starts while
	// inserting a block is a task that may still be pending when the node proposes again
	var out *simrt.Violation
	res := simsched.Run(simsched.Options{Seed: p.Seed ^ 0xc4a1, Policy: "random", MaxPreempt: int(p.Seed % 4), MaxSteps: 20000000}, []string{"proposer"}, []func(){func() {
		out = c17ChainRounds(p, n, sender, saddr, canonNonce, nonceChecked, st, log)
	}})
	if res.Panic != nil {
		return viol(-1, "host-panic", "chain-level", "%v", res.Panic)
	}
	if out != nil {
		return out
	}
	// quiescence: every transaction of a canonical block has its executed record (with its receipt)
	for _, blk := range c17ChainInserted {
		for _, t := range blk.Transactions {
			ex := n.Pool.GetExecuted(t.Hash)
			if ex == nil {
				return viol(-1, "executed-record-missing", "chain-level", "transaction %x (type %d) is in canonical block %x at height %d but GetExecuted returns nothing for it", t.Hash.Bytes()[:6], t.Type, blk.Header.Hash.Bytes()[:6], blk.Header.Height)
			}
			if ex.Receipt.BlockHash != blk.Header.Hash {
				return viol(-1, "executed-record-missing", "chain-level-block-hash", "the executed record of transaction %x names block %x, it was executed in canonical block %x", t.Hash.Bytes()[:6], ex.Receipt.BlockHash.Bytes()[:6], blk.Header.Hash.Bytes()[:6])
			}
		}
	}
	st.State(simrt.HashString(fmt.Sprintf("chain|%d|%v|%d", p.Gate, p.Ahead, p.Rounds)))
	st.Nontrivial(simrt.HashString(fmt.Sprintf("chain|%d|%v|%d", p.Gate, p.Ahead, p.Rounds)))
	return nil
}

var c17ChainInserted []*types.Block

func c17ChainRounds(p c17ChainPlan, n *node.Node, sender string, saddr common.Address, canonNonce func() uint64, nonceChecked map[common.Hash]uint64, st *simrt.Stats, log *simrt.Log) *simrt.Violation {
	var inserted []*types.Block
	defer func() { c17ChainInserted = inserted }()
	viol := func(ev int, clause, where, f string, a ...interface{}) *simrt.Violation {
		return simrt.Violationf("C17", clause, where, ev, f, a...)
	}
	onChain := map[common.Hash]common.Hash{} // transaction -> canonical block that executed it
	for round := 0; round < p.Rounds; round++ {
		base := canonNonce()
		for j, off := range p.Ahead {
			tx := &types.Transaction{Source: sender, Type: types.TransactionTypeETHTX, Nonce: base + uint64(off), Time: fmt.Sprintf("%d-%d-%d", p.Seed, round, j)}
			tx.Hash = tx.GenHash()
			if ok, _ := n.Pool.AddTransaction(tx); ok {
				nonceChecked[tx.Hash] = tx.Nonce
			}
		}
		expected := canonNonce()
		blk, err := n.CastBlock(node.BlockSpec{QN: 1, PV: int64(2 + round), TimeMs: int64(2000 + 1000*round)})
		if err != nil {
			return viol(round, "proposer-cannot-cast", "chain-level", "CastBlock: %v", err)
		}
		// what the proposal packed: its transactions plus what it evicted while executing them
		var packed []uint64
		seen := map[common.Hash]bool{}
		note := func(h common.Hash) *simrt.Violation {
			if seen[h] {
				return viol(round, "pack-duplicate", "chain-level", "transaction %x appears twice in one proposal", h.Bytes()[:6])
			}
			seen[h] = true
			if nn, ok := nonceChecked[h]; ok {
				packed = append(packed, nn)
			}
			if bh, ok := onChain[h]; ok {
				return viol(round, "pack-contains-executed", "chain-level", "transaction %x is executed in canonical block %x and was packed again", h.Bytes()[:6], bh.Bytes()[:6])
			}
			return nil
		}
		for _, t := range blk.Transactions {
			if v := note(t.Hash); v != nil {
				return v
			}
		}
		for _, h := range blk.Header.EvictedTxs {
			if v := note(h); v != nil {
				return v
			}
		}
		sort.Slice(packed, func(a, b int) bool { return packed[a] < packed[b] })
		log.Add("round %d: canonical nonce %d, pool offsets %v, packed nonce-checked nonces %v, %d transactions, %d evicted", round, expected, p.Ahead, packed, len(blk.Transactions), len(blk.Header.EvictedTxs))
		next := expected
		for _, nn := range packed {
			if nn > next {
				return viol(round, "pack-ahead-of-nonce", "chain-level", "the proposal packed a transaction of %s with nonce %d while the sender's next expected nonce is %d (canonical state nonce %d)", sender[:10], nn, next, expected)
			}
			if nn == next {
				next++
			}
		}
		st.Evaluations++
		if res := n.Chain.AddBlockOnChain(node.CloneBlock(blk)); res != types.AddBlockSucc {
			return viol(round, "own-proposal-rejected", "chain-level", "the node's own proposal was rejected with %d", res)
		}
		for _, t := range blk.Transactions {
			onChain[t.Hash] = blk.Header.Hash
		}
		// (checked at the end of the plan, when every goroutine the insertion started has finished)
		inserted = append(inserted, blk)
		middleware.AccountDBManagerInstance.Height = n.Chain.TopBlock().Height
	}
	return nil
}
