//go:build verif
// +build verif

package group_create

// In-package driver for the deterministic simulator (Go -overlay from /verif/overlay):
// exposes the node's own distributed-key-generation member object.

import (
	"com.tuntun.rangers/node/src/consensus/access"
	"com.tuntun.rangers/node/src/consensus/base"
	"com.tuntun.rangers/node/src/consensus/net"
	"com.tuntun.rangers/node/src/consensus/groupsig"
	"com.tuntun.rangers/node/src/consensus/model"
	"com.tuntun.rangers/node/src/middleware/log"
)

// SimDKGMember wraps one groupNodeInfo (a member's DKG state for one group).
type SimDKGMember struct {
	ID groupsig.ID
	ni *groupNodeInfo
}

// SimNewDKGMember builds the member object exactly as NewGroupNodeInfo does, with the
// per-group secret seed supplied by the simulation.
func SimNewDKGMember(id groupsig.ID, secret []byte, memberNum int) *SimDKGMember {
	if groupCreateLogger == nil {
		groupCreateLogger = log.GetLoggerByIndex(log.GroupCreateLogConfig, "")
	}
	ni := &groupNodeInfo{secretSeed: base.RandFromBytes(secret), groupMemberNum: memberNum, receivedSharePiece: make(map[string]model.SharePiece)}
	return &SimDKGMember{ID: id, ni: ni}
}

// Deal produces this dealer's share pieces for all members (share + dealer's seed public key).
func (m *SimDKGMember) Deal(members []groupsig.ID) map[string]model.SharePiece {
	shares := m.ni.genSharePiece(members)
	pub := m.ni.getSeedPubKey()
	out := make(map[string]model.SharePiece, len(shares))
	for id, s := range shares {
		out[id] = model.SharePiece{Share: s, Pub: pub}
	}
	return out
}

// Receive handles a share piece dealt by `from` (1 = keys aggregated, 0 = waiting, -1 = duplicate/error).
func (m *SimDKGMember) Receive(from groupsig.ID, piece model.SharePiece) int {
	return m.ni.handleSharePiece(from, &piece)
}

func (m *SimDKGMember) SignSecKey() groupsig.Seckey  { return m.ni.getSignSecKey() }
func (m *SimDKGMember) GroupPubKey() groupsig.Pubkey { return m.ni.getGroupPubKey() }
func (m *SimDKGMember) SeedSecKey() groupsig.Seckey  { return m.ni.genSeedSecKey() }
func (m *SimDKGMember) Threshold() int               { return m.ni.threshold() }

// SimInstall points the group-create processor singleton at the given joined-group
// storage, identity and network server (what Init does, without timers or chains).
func SimInstall(mi model.SelfMinerInfo, storage *access.JoinedGroupStorage, ns net.NetworkServer) {
	if groupCreateLogger == nil {
		groupCreateLogger = log.GetLoggerByIndex(log.GroupCreateLogConfig, "")
	}
	GroupCreateProcessor.minerInfo = mi
	GroupCreateProcessor.joinedGroupStorage = storage
	GroupCreateProcessor.NetServer = ns
}
