// Package node boots go-rangers components inside the simulator process.
package node

import (
	"os"
	"path/filepath"
	"sync"

	"com.tuntun.rangers/node/src/common"
	"com.tuntun.rangers/node/src/storage/account"
)

var procOnce sync.Once

// Forks selects the fork configuration (DESIGN.md 3.9).
type Forks string

const (
	ForksLatest  Forks = "latest"  // every proposal active from height 1
	ForksDevLike Forks = "devlike" // dev config, Proposal026 from 1; 020 at 10, 023 at 12
	// ForksLatestSync: as latest but without Proposal020's asynchronous casting goroutine
	// (the proposer executes synchronously as before 020; verification is identical)
	ForksLatestSync Forks = "latestsync"
)

// InitProcess prepares process-wide state every harness needs: a scratch working
// directory (logs, sqlite), common.Init with the dev chain config, loggers.
func InitProcess() {
	procOnce.Do(func() {
		wd := os.Getenv("VERIF_WORKDIR")
		if wd == "" {
			d, err := os.MkdirTemp("", "verifsim-wd-")
			if err != nil {
				panic(err)
			}
			wd = d
		}
		os.MkdirAll(wd, 0o755)
		if err := os.Chdir(wd); err != nil {
			panic(err)
		}
		os.WriteFile(filepath.Join(wd, "1.ini"), []byte(""), 0o644)
		common.Init(0, "1.ini", "dev")
		SetForks(ForksLatest)
		account.Init()
	})
}

// SetForks installs a fork configuration. Genesis (height 0) always runs with
// Proposal026 inactive (creation gas x30 would make the dev genesis fail).
func SetForks(f Forks) {
	c := &common.LocalChainConfig
	switch f {
	case ForksDevLike:
		c.Proposal020Block = 10
		c.Proposal023Block = 12
		c.Proposal025Block = 1000000000
		c.Proposal026Block = 1
		c.Proposal027Block = 0
	case ForksLatestSync:
		c.Proposal020Block = 1 << 62
		c.Proposal023Block = 1
		c.Proposal025Block = 1
		c.Proposal026Block = 1
		c.Proposal027Block = 1
	default:
		c.Proposal020Block = 1
		c.Proposal023Block = 1
		c.Proposal025Block = 1
		c.Proposal026Block = 1
		c.Proposal027Block = 1
	}
}
