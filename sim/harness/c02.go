package harness

import (
	"bytes"
	"encoding/hex"
	"encoding/json"
	"fmt"
	"sort"
	"time"

	"com.tuntun.rangers/node/src/common"
	xdb "com.tuntun.rangers/node/src/middleware/db"
	"com.tuntun.rangers/node/src/storage/trie"
	"com.tuntun.rangers/node/src/zzverif/model"
	"com.tuntun.rangers/node/src/zzverif/runner"
	"com.tuntun.rangers/node/src/zzverif/simdisk"
	"com.tuntun.rangers/node/src/zzverif/simrt"
)

// C02 — the trie root is the canonical MPT commitment of its content.
//
// Simulated system: one or two real tries over one real NodeDatabase over the
// simulated disk. The plan is a history of update/delete/get/hash/commit/
// reopen(warm|cold)/cache-limit/iterate operations plus one-shot disk read
// faults; the oracle is the independent reference root (model.MPTRoot) and a
// plain map, checked after every operation.

type c02Op struct {
	K   string `json:"k"`             // upd del get hash commit warm cold limit cap iter fault
	T   int    `json:"t,omitempty"`   // trie index
	Key string `json:"key,omitempty"` // hex
	Val string `json:"val,omitempty"` // hex
	N   int    `json:"n,omitempty"`
}

type c02Plan struct {
	Seed  uint64  `json:"seed"`
	Tries int     `json:"tries"`
	Limit int     `json:"limit"`
	Mem   bool    `json:"mem,omitempty"` // the repository's own MemDatabase under the NodeDatabase (no faults)
	Ops   []c02Op `json:"ops"`
}

type c02 struct{}

func init() { runner.Register(c02{}) }

func (c02) ID() string    { return "C02" }
func (c02) Level() string { return "exploration" }

func (c02) Budget(tier string) runner.Budget {
	if tier == "thorough" {
		return runner.Budget{Plans: 400000, PlansPerProc: 2500, Wall: 12 * time.Minute}
	}
	return runner.Budget{Plans: 280000, PlansPerProc: 2500, Wall: 45 * time.Second, MinPlans: 80000}
}

func (c02) Describe() runner.Description {
	return runner.Description{
		Rule:        "each case is one seeded history (3..200 ops, swarm-varied mix) of update/delete/get/hash/commit/warm-reopen/cold-reopen/cache-limit/node-cache-eviction(NodeDatabase.Cap)/iterate/iterate-from-a-start-key over 1-2 tries sharing one NodeDatabase on the simulated disk with one-shot disk read faults, or (fault-free plans, about a third) on the repository's own MemDatabase; after EVERY op the real root is compared with an independent Yellow-Paper MPT root of the model map, reads with the map, iteration with the sorted live pairs; at the end history independence (re-insertion in a seeded other order). distinct_nontrivial = distinct final-content fingerprints among histories that deleted an existing key AND reopened or unloaded nodes (commit with cache limit / cold reopen).",
		Assumptions: []string{"keccak256 from golang.org/x/crypto is correct", "the harness's own 60-line RLP/hex-prefix encoder follows the Yellow Paper", "disk read faults are only injected as one-shot errors or not-found results"},
		Real:        []string{"storage/trie (Trie, hasher, NodeDatabase, iterator)", "storage/rlp (used by the trie)", "common/sha3"},
		Stub:        []string{"disk: simdisk.KV (in-memory map with write log and fault switchboard) in plans that inject faults; the real MemDatabase otherwise"},
		FaultKinds:  []string{"disk_read_error", "disk_read_missing", "cold_reopen", "warm_reopen", "cache_unload"},
	}
}

func c02KeyPool(r *simrt.Rand) [][]byte {
	n := r.Range(3, 24)
	style := r.Intn(5)
	var pool [][]byte
	base := r.Bytes(32)
	for i := 0; i < n; i++ {
		var k []byte
		switch style {
		case 0: // tiny alphabet, 1-4 bytes: lots of shared prefixes and prefix-of-each-other keys
			l := r.Range(1, 4)
			for j := 0; j < l; j++ {
				k = append(k, []byte{0x00, 0x01, 0x10, 0x11, 0xff}[r.Intn(5)])
			}
		case 1: // long shared prefix, divergence at the last nibble(s)
			k = append([]byte{}, base[:r.Range(8, 31)]...)
			k = append(k, byte(r.Intn(4))<<4|byte(r.Intn(3)))
		case 2: // 32-byte hashed-style keys
			k = r.Bytes(32)
		case 3: // 20-byte address-like, clustered on the first byte
			k = r.Bytes(20)
			k[0] = byte(r.Intn(3))
		default: // mix incl. keys that are prefixes of each other
			if len(pool) > 0 && r.Chance(0.5) {
				p := pool[r.Intn(len(pool))]
				k = append(append([]byte{}, p...), r.Bytes(r.Range(1, 2))...)
			} else {
				k = r.Bytes(r.Range(1, 6))
			}
		}
		pool = append(pool, k)
	}
	return pool
}

func c02Val(r *simrt.Rand, uniq int) []byte {
	var n int
	switch r.Intn(7) {
	case 6:
		// long values: node encodings beyond what the hasher's scratch buffer held before
		n = []int{r.Range(300, 700), r.Range(701, 2500), r.Range(2501, 9000)}[r.Intn(3)]
	case 0:
		n = r.Range(1, 4)
	case 1:
		n = r.Range(5, 31)
	case 2:
		n = 32
	case 3:
		n = r.Range(33, 80)
	case 4:
		n = r.Range(81, 200)
	default:
		n = r.Range(1, 40)
	}
	v := r.Bytes(n)
	// unique values: each read is attributable to one write
	v[0] = byte(uniq)
	if n > 1 {
		v[1] = byte(uniq >> 8)
	}
	if v[0] == 0 && n == 1 {
		v[0] = 1
	}
	return v
}

func (c02) Gen(seed uint64, tier string) json.RawMessage {
	r := simrt.NewRand(seed)
	p := c02Plan{Seed: seed, Tries: 1, Limit: 0}
	if r.Chance(0.3) {
		p.Tries = 2
	}
	if r.Chance(0.6) {
		p.Limit = r.Range(1, 3)
	}
	pool := c02KeyPool(r)
	nops := r.Range(3, 14)
	if r.Chance(0.35) {
		nops = r.Range(15, 60)
	}
	if r.Chance(0.08) {
		nops = r.Range(61, 200)
	}
	// swarm: per-plan op weights
	w := map[string]int{"upd": r.Range(3, 10), "del": r.Range(0, 6), "get": r.Range(0, 3), "hash": r.Range(0, 3),
		"commit": r.Range(0, 4), "warm": r.Range(0, 2), "cold": r.Range(0, 2), "limit": r.Range(0, 1), "iter": r.Range(0, 2), "fault": 0, "cap": 0, "iterfrom": r.Range(0, 2)}
	if r.Chance(0.4) {
		w["fault"] = r.Range(1, 3)
	} else if r.Chance(0.5) {
		p.Mem = true
	}
	if r.Chance(0.4) {
		w["cap"] = r.Range(1, 3)
	}
	kinds := []string{"upd", "del", "get", "hash", "commit", "warm", "cold", "limit", "iter", "fault", "cap", "iterfrom"}
	tot := 0
	for _, k := range kinds {
		tot += w[k]
	}
	for i := 0; i < nops; i++ {
		x := r.Intn(tot)
		kind := ""
		for _, k := range kinds {
			if x < w[k] {
				kind = k
				break
			}
			x -= w[k]
		}
		op := c02Op{K: kind, T: r.Intn(p.Tries)}
		switch kind {
		case "upd":
			op.Key = hex.EncodeToString(pool[r.Intn(len(pool))])
			if r.Chance(0.08) {
				op.Val = "" // empty write = delete
			} else {
				op.Val = hex.EncodeToString(c02Val(r, i+1))
			}
		case "del", "get":
			op.Key = hex.EncodeToString(pool[r.Intn(len(pool))])
		case "iterfrom":
			// iteration from a start key: a key of the pool, a cut or extended one, or arbitrary bytes
			k := append([]byte{}, pool[r.Intn(len(pool))]...)
			switch r.Intn(4) {
			case 0:
				if len(k) > 1 {
					k = k[:r.Range(1, len(k)-1)]
				}
			case 1:
				k = append(k, byte(r.Intn(256)))
			case 2:
				k = r.Bytes(r.Range(1, 4))
			}
			op.Key = hex.EncodeToString(k)
		case "limit":
			op.N = r.Range(0, 3)
		case "cap":
			// size-driven eviction of the write-back node cache down to N bytes
			op.N = []int{0, 0, 200, 600, 2000}[r.Intn(5)]
		case "commit":
			op.N = r.Intn(2) // 1 = also flush to disk
		case "fault":
			op.N = r.Range(1, 4) // which disk read of the next op fails
			op.T = r.Intn(2)     // 0 = error, 1 = reported missing
			if r.Chance(0.7) {
				// place the fault where it can fire: flush, drop every cache, then fail a read of an
				// operation that has to resolve nodes from disk
				tr := r.Intn(p.Tries)
				p.Ops = append(p.Ops, c02Op{K: "commit", T: tr, N: 1}, c02Op{K: "cold", T: tr})
				op.N = r.Range(1, 2)
				p.Ops = append(p.Ops, op)
				nk := []string{"get", "upd", "del", "iter", "hash"}[r.Intn(5)]
				nx := c02Op{K: nk, T: tr}
				switch nk {
				case "upd":
					nx.Key = hex.EncodeToString(pool[r.Intn(len(pool))])
					nx.Val = hex.EncodeToString(c02Val(r, i+1))
				case "get", "del":
					nx.Key = hex.EncodeToString(pool[r.Intn(len(pool))])
				}
				p.Ops = append(p.Ops, nx)
				continue
			}
		}
		p.Ops = append(p.Ops, op)
	}
	b, _ := json.Marshal(p)
	return b
}

type c02Trie struct {
	tr          *trie.Trie
	model       map[string][]byte
	commitRoot  common.Hash       // root at last Commit
	commitModel map[string][]byte // content at last Commit
	onDisk      bool              // commitRoot flushed to disk
}

// nibTermLess orders keys as the trie stores them: nibble sequences with a
// terminator that sorts after every nibble.
func nibTermLess(a, b string) bool {
	na, nb := make([]int, 0, 2*len(a)+1), make([]int, 0, 2*len(b)+1)
	for i := 0; i < len(a); i++ {
		na = append(na, int(a[i]>>4), int(a[i]&15))
	}
	na = append(na, 16)
	for i := 0; i < len(b); i++ {
		nb = append(nb, int(b[i]>>4), int(b[i]&15))
	}
	nb = append(nb, 16)
	for i := 0; i < len(na) && i < len(nb); i++ {
		if na[i] != nb[i] {
			return na[i] < nb[i]
		}
	}
	return len(na) < len(nb)
}

func copyMap(m map[string][]byte) map[string][]byte {
	c := make(map[string][]byte, len(m))
	for k, v := range m {
		c[k] = v
	}
	return c
}

func contentFingerprint(m map[string][]byte) uint64 {
	keys := make([]string, 0, len(m))
	for k := range m {
		keys = append(keys, k)
	}
	sort.Strings(keys)
	h := uint64(7)
	for _, k := range keys {
		h = simrt.Mix(h, simrt.HashBytes([]byte(k), m[k]))
	}
	return h
}

func (c02) Exec(raw json.RawMessage, st *simrt.Stats, log *simrt.Log) *simrt.Violation {
	var p c02Plan
	if err := json.Unmarshal(raw, &p); err != nil {
		panic(runner.InfraError{Msg: "bad plan: " + err.Error()})
	}
	st.Evaluations++
	kv := simdisk.NewKV()
	var disk xdb.Database = kv
	if p.Mem {
		disk, _ = xdb.NewMemDatabase()
	}
	ndb := trie.NewDatabase(disk)
	if p.Tries < 1 {
		p.Tries = 1
	}
	ts := make([]*c02Trie, p.Tries)
	for i := range ts {
		tr, err := trie.NewTrie(common.Hash{}, ndb)
		if err != nil {
			panic(runner.InfraError{Msg: err.Error()})
		}
		tr.SetCacheLimit(uint16(p.Limit))
		ts[i] = &c02Trie{tr: tr, model: map[string][]byte{}, commitModel: map[string][]byte{}, commitRoot: common.BytesToHash(model.EmptyRoot), onDisk: true}
	}
	deletedExisting, reloaded := false, false
	faultArmed := 0 // n-th read of next op fails
	faultMissing := false
	viol := func(ev int, clause, where, f string, a ...interface{}) *simrt.Violation {
		return simrt.Violationf("C02", clause, where, ev, f, a...)
	}
	checkRoot := func(ev int, t *c02Trie, got common.Hash, where string) *simrt.Violation {
		want := model.MPTRoot(t.model)
		if !bytes.Equal(got.Bytes(), want) {
			return viol(ev, "root-not-canonical", where, "root %x, reference MPT root %x for %d pairs", got.Bytes(), want, len(t.model))
		}
		return nil
	}
	commit := func(ev int, t *c02Trie, disk bool) *simrt.Violation {
		root, err := t.tr.Commit(nil)
		if err != nil {
			return viol(ev, "commit-error", "commit", "Commit: %v", err)
		}
		if v := checkRoot(ev, t, root, "commit"); v != nil {
			return v
		}
		t.commitRoot, t.commitModel, t.onDisk = root, copyMap(t.model), false
		if disk {
			if err := ndb.Commit(root, false); err != nil {
				return viol(ev, "commit-error", "db-commit", "NodeDatabase.Commit: %v", err)
			}
			t.onDisk = true
		}
		if p.Limit > 0 {
			st.Fault("cache_unload")
			reloaded = true
		}
		return nil
	}
	for i, op := range p.Ops {
		st.Ops++
		rawT := op.T
		if op.T >= len(ts) || op.T < 0 {
			op.T = 0
		}
		t := ts[op.T]
		key, _ := hex.DecodeString(op.Key)
		val, _ := hex.DecodeString(op.Val)
		// arm the pending one-shot fault for this op
		faulty := false
		if faultArmed > 0 && op.K != "fault" {
			n, missing := faultArmed, faultMissing
			faultArmed = 0
			seen := 0
			f := func(k []byte) bool {
				seen++
				if seen == n {
					faulty = true
					return true
				}
				return false
			}
			if missing {
				kv.ReadMissing = f
			} else {
				kv.ReadFault = f
			}
		}
		log.Add("%d %s t=%d key=%s val=%d n=%d", i, op.K, op.T, op.Key, len(val), op.N)
		switch op.K {
		case "upd":
			err := t.tr.TryUpdate(key, val)
			if err != nil {
				if !faulty {
					return viol(i, "spurious-error", "update", "TryUpdate: %v", err)
				}
			} else {
				if len(val) == 0 {
					if _, ok := t.model[string(key)]; ok {
						deletedExisting = true
					}
					delete(t.model, string(key))
				} else {
					t.model[string(key)] = val
				}
			}
		case "del":
			err := t.tr.TryDelete(key)
			if err != nil {
				if !faulty {
					return viol(i, "spurious-error", "delete", "TryDelete: %v", err)
				}
			} else {
				if _, ok := t.model[string(key)]; ok {
					deletedExisting = true
				}
				delete(t.model, string(key))
			}
		case "get":
			got, err := t.tr.TryGet(key)
			if err != nil {
				if !faulty {
					return viol(i, "spurious-error", "get", "TryGet: %v", err)
				}
			} else if !bytes.Equal(got, t.model[string(key)]) {
				return viol(i, "read-wrong-value", "get", "TryGet(%x) = %x, model %x (fault=%v)", key, got, t.model[string(key)], faulty)
			}
		case "hash":
			if v := checkRoot(i, t, t.tr.Hash(), "hash"); v != nil {
				return v
			}
		case "commit":
			if v := commit(i, t, op.N == 1); v != nil {
				return v
			}
		case "warm": // drop the trie object, reopen at its last committed root on the same NodeDatabase
			tr, err := trie.NewTrie(t.commitRoot, ndb)
			if err != nil {
				if !faulty {
					return viol(i, "reopen-failed", "warm", "NewTrie(%x): %v", t.commitRoot.Bytes(), err)
				}
				break
			}
			tr.SetCacheLimit(uint16(p.Limit))
			t.tr, t.model = tr, copyMap(t.commitModel)
			st.Fault("warm_reopen")
			reloaded = true
		case "cold": // flush everything, then a brand-new NodeDatabase over the same disk
			kv.ReadFault, kv.ReadMissing = nil, nil
			faulty = false
			for _, x := range ts {
				if !x.onDisk {
					if err := ndb.Commit(x.commitRoot, false); err != nil {
						return viol(i, "commit-error", "db-commit", "NodeDatabase.Commit: %v", err)
					}
					x.onDisk = true
				}
			}
			ndb = trie.NewDatabase(disk)
			for _, x := range ts {
				tr, err := trie.NewTrie(x.commitRoot, ndb)
				if err != nil {
					return viol(i, "reopen-failed", "cold", "NewTrie(%x) on cold database: %v", x.commitRoot.Bytes(), err)
				}
				tr.SetCacheLimit(uint16(p.Limit))
				x.tr, x.model = tr, copyMap(x.commitModel)
			}
			st.Fault("cold_reopen")
			reloaded = true
		case "limit":
			t.tr.SetCacheLimit(uint16(op.N))
		case "cap":
			if err := ndb.Cap(common.StorageSize(op.N)); err != nil {
				return viol(i, "commit-error", "db-cap", "NodeDatabase.Cap(%d): %v", op.N, err)
			}
			st.Fault("node_cache_evict")
		case "iter":
			it := trie.NewIterator(t.tr.NodeIterator(nil))
			var keys []string
			for k := range t.model {
				keys = append(keys, k)
			}
			sort.Strings(keys)
			var gotK []string
			var gotV [][]byte
			for it.Next() && len(gotK) <= len(keys)+2 {
				gotK = append(gotK, string(it.Key))
				gotV = append(gotV, append([]byte{}, it.Value...))
			}
			if it.Err != nil {
				if !faulty {
					return viol(i, "spurious-error", "iterate", "iterator error: %v", it.Err)
				}
				break
			}
			// (a) exactly the live pairs
			seen := map[string]bool{}
			for j, k := range gotK {
				mv, ok := t.model[k]
				if !ok || seen[k] {
					return viol(i, "iteration-wrong", "extra", "iterator yields %x which is not a live key (or twice)", k)
				}
				seen[k] = true
				if !bytes.Equal(gotV[j], mv) {
					return viol(i, "iteration-wrong", "value", "iterator yields (%x,%x), model value %x", k, gotV[j], mv)
				}
			}
			if len(gotK) != len(keys) {
				return viol(i, "iteration-wrong", "missing", "iterator yielded %d of %d live pairs", len(gotK), len(keys))
			}
			// (b) ascending key order
			for j := range keys {
				if gotK[j] != keys[j] {
					// classify: is the yielded order the trie's child order (children 0..15 before the
					// branch's own value), i.e. the only misplaced keys are proper prefixes of other keys?
					alt := append([]string{}, keys...)
					sort.Slice(alt, func(a, b int) bool { return nibTermLess(alt[a], alt[b]) })
					same := true
					for x := range alt {
						if alt[x] != gotK[x] {
							same = false
						}
					}
					if same {
						return viol(i, "iteration-wrong", "prefix-key-after-its-extensions", "item %d is %x, ascending order expects %x: a key that is a proper prefix of other keys is yielded after them", j, gotK[j], keys[j])
					}
					return viol(i, "iteration-wrong", "order", "item %d is %x, ascending order expects %x", j, gotK[j], keys[j])
				}
			}
		case "iterfrom":
			// a node iterator positioned at a start key yields the pairs whose path (nibbles + terminator) is not
			// below the start key's nibbles, in the trie's own order
			it := trie.NewIterator(t.tr.NodeIterator(key))
			var want []string
			for k := range t.model {
				want = append(want, k)
			}
			sort.Slice(want, func(a, b int) bool { return nibTermLess(want[a], want[b]) })
			startNib := make([]int, 0, 2*len(key))
			for _, c := range key {
				startNib = append(startNib, int(c>>4), int(c&15))
			}
			notBelow := func(k string) bool {
				p := make([]int, 0, 2*len(k)+1)
				for i := 0; i < len(k); i++ {
					p = append(p, int(k[i]>>4), int(k[i]&15))
				}
				p = append(p, 16)
				for i := 0; i < len(p) && i < len(startNib); i++ {
					if p[i] != startNib[i] {
						return p[i] > startNib[i]
					}
				}
				return len(p) >= len(startNib)
			}
			var exp []string
			for _, k := range want {
				if notBelow(k) {
					exp = append(exp, k)
				}
			}
			var got []string
			bad := ""
			for it.Next() && len(got) <= len(exp)+2 {
				got = append(got, string(it.Key))
				if mv, ok := t.model[string(it.Key)]; !ok || !bytes.Equal(mv, it.Value) {
					bad = fmt.Sprintf("yields (%x,%x) which is not a live pair", it.Key, it.Value)
				}
			}
			if it.Err != nil {
				if !faulty {
					return viol(i, "spurious-error", "iterate-from", "iterator error: %v", it.Err)
				}
				break
			}
			if bad == "" && len(got) != len(exp) {
				bad = fmt.Sprintf("yields %d pairs, %d live pairs are not below the start key", len(got), len(exp))
			}
			for j := 0; bad == "" && j < len(exp); j++ {
				if got[j] != exp[j] {
					bad = fmt.Sprintf("item %d is %x, expected %x", j, got[j], exp[j])
				}
			}
			if bad != "" {
				return viol(i, "iteration-wrong", "from-start-key", "iteration from start key %x %s", key, bad)
			}
			st.Probe("iterate_from_start_key")
		case "fault":
			faultArmed = op.N
			faultMissing = rawT == 1
		}
		kv.ReadFault, kv.ReadMissing = nil, nil
		if faulty {
			if faultMissing {
				st.Fault("disk_read_missing")
			} else {
				st.Fault("disk_read_error")
			}
		}
		// invariant after every op, on every trie: canonical root (fault cleared, so exact)
		for ti, x := range ts {
			if v := checkRoot(i, x, x.tr.Hash(), fmt.Sprintf("after-%s", op.K)); v != nil {
				v.Detail += fmt.Sprintf(" (trie %d, op on trie %d)", ti, op.T)
				return v
			}
		}
	}
	// final: full read-back, iteration, history independence
	ev := len(p.Ops)
	for ti, x := range ts {
		for k, v := range x.model {
			got, err := x.tr.TryGet([]byte(k))
			if err != nil || !bytes.Equal(got, v) {
				return viol(ev, "read-wrong-value", "final", "trie %d: TryGet(%x) = %x,%v; model %x", ti, k, got, err, v)
			}
		}
		r := simrt.NewRand(p.Seed ^ 0xabcdef)
		keys := make([]string, 0, len(x.model))
		for k := range x.model {
			keys = append(keys, k)
		}
		sort.Strings(keys)
		fresh, _ := trie.NewTrie(common.Hash{}, trie.NewDatabase(simdisk.NewKV()))
		for _, j := range r.Perm(len(keys)) {
			fresh.TryUpdate([]byte(keys[j]), x.model[keys[j]])
		}
		if fresh.Hash() != x.tr.Hash() {
			return viol(ev, "history-dependent-root", "final", "trie %d: root %x differs from root %x of the same content inserted in another order", ti, x.tr.Hash().Bytes(), fresh.Hash().Bytes())
		}
		st.State(contentFingerprint(x.model))
		if deletedExisting && reloaded {
			st.Nontrivial(contentFingerprint(x.model))
		}
	}
	return nil
}

func (c02) Shrink(raw json.RawMessage) []json.RawMessage {
	var p c02Plan
	json.Unmarshal(raw, &p)
	var out []json.RawMessage
	emit := func(q c02Plan) {
		b, _ := json.Marshal(q)
		out = append(out, b)
	}
	n := len(p.Ops)
	// drop halves, quarters, then single ops
	for chunk := n / 2; chunk >= 1; chunk /= 2 {
		for s := 0; s+chunk <= n; s += chunk {
			q := p
			q.Ops = append(append([]c02Op{}, p.Ops[:s]...), p.Ops[s+chunk:]...)
			emit(q)
		}
		if chunk == 1 {
			break
		}
	}
	if p.Tries > 1 {
		q := p
		q.Tries = 1
		emit(q)
	}
	if p.Limit > 0 {
		q := p
		q.Limit = 0
		emit(q)
	}
	// simplify values
	for i, op := range p.Ops {
		if op.K == "upd" && len(op.Val) > 2 {
			q := p
			q.Ops = append([]c02Op{}, p.Ops...)
			q.Ops[i].Val = op.Val[:2]
			emit(q)
		}
	}
	return out
}
