//go:build verif
// +build verif

package logical

// In-package driver for the deterministic simulator (Go -overlay from /verif/overlay):
// builds a real SignParty positioned where round0 has just accepted a proposed header,
// and exposes the collected share sets.

import (
	"sync"

	"com.tuntun.rangers/node/src/common"
	"com.tuntun.rangers/node/src/middleware"

	"com.tuntun.rangers/node/src/consensus/access"
	"com.tuntun.rangers/node/src/consensus/groupsig"
	"com.tuntun.rangers/node/src/consensus/model"
	"com.tuntun.rangers/node/src/consensus/net"
	"com.tuntun.rangers/node/src/core"
	"com.tuntun.rangers/node/src/middleware/log"
	"com.tuntun.rangers/node/src/middleware/types"
)

type SimSignParty struct {
	p  *SignParty
	r0 *round0
}

// SimNewSignParty creates the party the processor would create for a cast message and
// puts it in the state round0 reaches after accepting the proposed header bh.
func SimNewSignParty(bh, preBH *types.BlockHeader, group *model.GroupInfo, mi groupsig.ID, chain core.BlockChain, ns net.NetworkServer, belong *access.JoinedGroupStorage) *SimSignParty {
	lg := log.GetLoggerByIndex(log.ConsensusLogConfig, "")
	party := &SignParty{belongGroups: belong, blockchain: chain, mi: mi, netServer: ns,
		baseParty: baseParty{logger: lg, mtx: sync.Mutex{}, futureMessages: make(map[string]model.ConsensusMessage),
			Done: make(chan byte, 1), Err: make(chan error, 4), id: bh.Hash.String()}}
	if err := party.Start(); err != nil {
		panic(err)
	}
	r0 := party.rnd.(*round0)
	r0.bh = bh
	r0.preBH = preBH
	r0.group = group
	return &SimSignParty{p: party, r0: r0}
}

// Update delivers one consensus message exactly as the processor does.
func (s *SimSignParty) Update(msg model.ConsensusMessage) { s.p.Update(msg) }

// AcceptProposal marks round0 as having accepted the header and runs the same
// advance loop baseParty.Update runs afterwards (round1.Start replays stored messages).
func (s *SimSignParty) AcceptProposal() {
	s.p.lock()
	// the advance loop runs inside baseParty.Update, whose deferred function swallows panics: same here
	defer func() {
		s.p.unlock()
		if r := recover(); r != nil {
			common.DefaultLogger.Errorf("recover error: %v", r)
		}
	}()
	s.r0.canProcessed = true
	for s.p.round() != nil && s.p.round().CanProceed() {
		if s.p.advance(); s.p.round() != nil {
			if err := s.p.round().Start(); err != nil {
				s.p.Err <- err
				return
			}
		} else {
			return
		}
	}
}

// Round returns the current round number (-1 when the party has ended).
func (s *SimSignParty) Round() int {
	if s.p.round() == nil {
		return -1
	}
	return s.p.round().RoundNumber()
}

// Shares returns the collected block-signature and beacon share sets (id hex -> share).
func (s *SimSignParty) Shares() (map[string]groupsig.Signature, map[string]groupsig.Signature) {
	var r1 *round1
	switch r := s.p.round().(type) {
	case *round1:
		r1 = r
	case *round2:
		r1 = r.round1
	}
	if r1 == nil || r1.gSignGenerator == nil {
		return nil, nil
	}
	g := map[string]groupsig.Signature{}
	for k, v := range r1.gSignGenerator.witnessSignMap {
		g[k] = v
	}
	rr := map[string]groupsig.Signature{}
	for k, v := range r1.rSignGenerator.witnessSignMap {
		rr[k] = v
	}
	return g, rr
}

// TakeErr returns a pending party error, if any (non-blocking).
func (s *SimSignParty) TakeErr() error {
	select {
	case e := <-s.p.Err:
		return e
	default:
		return nil
	}
}

// Finished reports whether the finalizer ran (non-blocking).
func (s *SimSignParty) Finished() bool {
	select {
	case <-s.p.Done:
		return true
	default:
		return false
	}
}

func (s *SimSignParty) Header() *types.BlockHeader { return s.r0.bh }


// SimProcessor is a Processor reduced to the party bookkeeping of processor_party.go: parking of verify
// messages that arrive before a party exists under their block hash (real OnMessageVerify /
// loadOrNewSignParty) and hand-over of the parked messages once the party has moved to that key.
type SimProcessor struct{ p *Processor }

func SimNewProcessor(mi *model.SelfMinerInfo, belong *access.JoinedGroupStorage, chain core.BlockChain, ns net.NetworkServer) *SimProcessor {
	p := &Processor{mi: mi, belongGroups: belong, MainChain: chain, NetServer: ns}
	p.partyManager = make(map[string]Party, 10)
	p.partyLock = middleware.NewLoglock("partyLock")
	p.logger = log.GetLoggerByIndex(log.ConsensusLogConfig, "")
	p.finishedParty = common.CreateLRUCache(300)
	p.futureMessages = common.CreateLRUCache(50)
	return &SimProcessor{p: p}
}

// OnMessageVerify is the processor's real entry point for verify messages.
func (s *SimProcessor) OnMessageVerify(cvm *model.ConsensusVerifyMessage) { s.p.OnMessageVerify(cvm) }

// Adopt does, synchronously, what waitUntilDone does when round0 announces the block hash as the
// party's real key: the party is registered under that key and the messages parked for it are taken
// out. The real code then delivers them in unordered goroutines; the caller delivers them in an order
// of its choosing (any order is a legal execution).
func (s *SimProcessor) Adopt(party *SimSignParty, realKey string) []model.ConsensusMessage {
	s.p.partyLock.Lock("simAdopt")
	defer s.p.partyLock.Unlock("simAdopt")
	party.p.SetId(realKey)
	s.p.partyManager[realKey] = party.p
	var out []model.ConsensusMessage
	if msgsRaw, ok := s.p.futureMessages.Get(realKey); ok {
		s.p.futureMessages.Remove(realKey)
		for _, m := range msgsRaw.([]model.ConsensusMessage) {
			if m != nil {
				out = append(out, m)
			}
		}
	}
	return out
}
