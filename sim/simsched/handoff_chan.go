//go:build !simrace
// +build !simrace

package simsched

import "sync"

// Default hand-off: channels and a mutex (they create happens-before edges between
// all tasks, which is what an ordinary build wants).

type parker struct{ c chan struct{} }

func (p *parker) init() { p.c = make(chan struct{}, 1) }
func (p *parker) wake() { p.c <- struct{}{} }
func (p *parker) wait() { <-p.c }

type schedMu struct{ sync.Mutex }

// RaceMode reports whether the hand-off is hidden from the race detector.
const RaceMode = false


// goroutine id -> *task (only while a Sim is active)
var gidMap sync.Map

func regTask(t *task)   { gidMap.Store(goid(), t) }
func unregTask(t *task) { gidMap.Delete(goid()) }
func clearTasks()       { gidMap.Range(func(k, v interface{}) bool { gidMap.Delete(k); return true }) }
func lookupTask(s *Sim) *task {
	if t, ok := gidMap.Load(goid()); ok {
		return t.(*task)
	}
	return nil
}
