package harness

import (
	"bytes"
	"crypto/sha256"
	"encoding/json"
	"fmt"
	"math"
	"math/big"
	"sort"
	"time"

	"com.tuntun.rangers/node/src/common"
	"com.tuntun.rangers/node/src/consensus/base"
	"com.tuntun.rangers/node/src/consensus/groupsig"
	"com.tuntun.rangers/node/src/consensus/groupsig/bn256"
	"com.tuntun.rangers/node/src/consensus/logical/group_create"
	"com.tuntun.rangers/node/src/consensus/model"
	"com.tuntun.rangers/node/src/zzverif/node"
	"com.tuntun.rangers/node/src/zzverif/runner"
	"com.tuntun.rangers/node/src/zzverif/simmap"
	"com.tuntun.rangers/node/src/zzverif/simrt"
	"com.tuntun.rangers/node/src/zzverif/simsched"
)

// C13 — any threshold subset of group members yields the same valid group signature.
//
// Simulated system: n member objects run the node's own DKG code (deal share
// pieces, exchange them as messages over the simulated transport with reordering
// and duplication, aggregate keys), then sign; collectors run the real
// GroupSignGenerator / RecoverGroupSignature. The simulator owns the schedule the
// property quantifies over: which shares arrive, in which order, duplicates, late
// arrivals, the internal random k-subset choice (seeded randomness hook) and the
// iteration order of the share map (instrumented build).

type c13Plan struct {
	Seed     uint64   `json:"seed"`
	N        int      `json:"n"`
	Deliver  []int    `json:"deliver"` // DKG: permutation (with duplicates) of dealer*n+receiver
	Messages int      `json:"messages"`
	Arrivals [][]int  `json:"arrivals"` // per collector: member indices in arrival order (dups allowed)
	RandSeed uint64   `json:"rand_seed"`
	MapSeeds []uint64 `json:"map_seeds"`
	Subsets  bool     `json:"subsets"` // enumerate every k-subset (small n)
	// Conc > 0: additionally one collector receives the shares from this many concurrently running
	// message-handler tasks (each with its own decoded copies of the shares) while they also poll it
	Conc     int    `json:"conc,omitempty"`
	ConcSeed uint64 `json:"conc_seed,omitempty"`
	// Redeal: 1+index of a dealer that loses its context after RedealAt deliveries (restart, cache eviction)
	// and deals again when the group-init message is delivered to it once more
	Redeal   int `json:"redeal,omitempty"`
	RedealAt int `json:"redeal_at,omitempty"`
}

type c13 struct{}

func init() { runner.Register(c13{}) }

func (c13) ID() string    { return "C13" }
func (c13) Level() string { return "exploration" }

func (c13) Budget(tier string) runner.Budget {
	if tier == "thorough" {
		return runner.Budget{Plans: 40000, PlansPerProc: 40, Wall: 14 * time.Minute}
	}
	return runner.Budget{Plans: 4000, PlansPerProc: 100, Wall: 45 * time.Second}
}

func (c13) Describe() runner.Description {
	return runner.Description{
		Rule:        "each plan: group size n in [3,10] (the dev minimum to the maximum), seeded member ids and per-group secrets; the n*n share pieces produced by the node's DKG member objects are delivered in a seeded order with duplicates; then 1..4 messages are signed by every member (every other member with its key written out and read back in the hex / byte form a restarted node loads) and 2..5 collectors receive the shares in seeded arrival orders (dropping up to n-k, duplicates, late arrivals after recovery). Checked: all members derive the same group public key, equal to the sum of the dealers' public keys; every share verifies under the member's public share; the threshold equals ceil(51% n); every collector, under every seeded internal k-subset choice and share-map iteration order, recovers exactly H(m)^s for s = sum of the dealers' secrets, which verifies under the group public key; with fewer than k distinct shares nothing is produced; for n<=7 additionally EVERY k-subset is recovered directly; in 30% of the plans one more collector is fed by 2-4 concurrently scheduled handler tasks (own decoded copies of the shares; each verifies the sender's block share and beacon share - two messages - before filing them in two collectors) that also poll it: every signature handed out and the final one must be H(m)^s. distinct_nontrivial = distinct (n, arrival-order signature) pairs with more shares than the threshold.",
		Assumptions: []string{"the reference signature H(m)^s is computed with the repository's Sign on the independently summed secret (BLS uniqueness makes it the only signature valid under the group key; verification soundness itself is property C14, not applicable here)"},
		Real:        []string{"consensus/logical/group_create.groupNodeInfo (DKG member)", "consensus/groupsig (ShareSeckey, AggregateSeckeys/Pubkeys, Sign, VerifySig, RecoverGroupSignature, Lagrange recovery)", "consensus/model.GroupSignGenerator", "consensus/base.Rand (seeded via hook)"},
		Stub:        []string{"transport between members (simulated: reorder, duplicate, drop)", "the rest of the node (not booted)"},
		FaultKinds:  []string{"dkg_reorder", "dkg_duplicate", "share_drop", "share_duplicate", "share_late_after_recovery", "internal_subset_seed", "map_order_seed", "concurrent_handlers", "key_reloaded_from_storage_form", "dkg_dealer_context_lost_redeal"},
	}
}

func (c13) Gen(seed uint64, tier string) json.RawMessage {
	r := simrt.NewRand(seed)
	p := c13Plan{Seed: seed, N: r.Range(3, 10), Messages: r.Range(1, 3), RandSeed: r.U64()}
	if r.Chance(0.35) {
		p.N = r.Range(3, 6)
	}
	for _, x := range r.Perm(p.N * p.N) {
		p.Deliver = append(p.Deliver, x)
		if r.Chance(0.08) {
			p.Deliver = append(p.Deliver, x)
		}
	}
	if r.Chance(0.15) {
		p.Redeal, p.RedealAt = 1+r.Intn(p.N), r.Range(1, len(p.Deliver)-1)
	}
	k := int(math.Ceil(float64(p.N*51) / 100))
	nc := r.Range(2, 5)
	for c := 0; c < nc; c++ {
		perm := r.Perm(p.N)
		m := r.Range(k, p.N)
		if r.Chance(0.12) {
			m = r.Range(1, k-1+1) - 0 // possibly below threshold
			if m >= k {
				m = k - 1
			}
			if m < 1 {
				m = 1
			}
		}
		var arr []int
		for _, x := range perm[:m] {
			arr = append(arr, x)
			if r.Chance(0.15) {
				arr = append(arr, x)
			}
		}
		p.Arrivals = append(p.Arrivals, arr)
	}
	for i := 0; i < 3; i++ {
		p.MapSeeds = append(p.MapSeeds, r.U64()|1)
	}
	p.Subsets = p.N <= 7 && r.Chance(0.5)
	if r.Chance(0.3) {
		p.Conc, p.ConcSeed = r.Range(2, 4), r.U64()
	}
	b, _ := json.Marshal(p)
	return b
}

// RacePlan / RaceFrames: race-detector stage (DESIGN.md 13.4) over the concurrent collector.
func (c13) RacePlan(seed uint64, i int) json.RawMessage {
	var p c13Plan
	json.Unmarshal(c13{}.Gen(runner.PlanSeed(seed, "C13-race", i), "quick"), &p)
	r := simrt.NewRand(runner.PlanSeed(seed, "C13-race-sched", i))
	p.Conc, p.ConcSeed = 2+i%3, r.U64()
	p.Messages = 1
	p.Subsets = false
	if len(p.Arrivals) > 1 {
		p.Arrivals = p.Arrivals[:1]
	}
	b, _ := json.Marshal(p)
	return b
}

func (c13) RaceFrames() []string {
	return []string{"/src/consensus/model.", "/src/consensus/groupsig"}
}

func c13Init() {
	node.InitProcess()
	if model.Param.SSSSThreshold == 0 {
		model.InitParam(common.GlobalConf.GetSectionManager("consensus"))
	}
}

func (c13) Exec(raw json.RawMessage, st *simrt.Stats, log *simrt.Log) *simrt.Violation {
	var p c13Plan
	if err := json.Unmarshal(raw, &p); err != nil {
		panic(runner.InfraError{Msg: "bad plan: " + err.Error()})
	}
	c13Init()
	viol := func(ev int, clause, where, f string, a ...interface{}) *simrt.Violation {
		return simrt.Violationf("C13", clause, where, ev, f, a...)
	}
	rnd := simrt.NewRand(p.RandSeed)
	base.SimRandRead = func(b []byte) { copy(b, rnd.Bytes(len(b))) }
	defer func() { base.SimRandRead = nil; simmap.Seed = 0 }()
	simmap.Seed = p.MapSeeds[0]
	st.Evaluations++

	n := p.N
	// members: ids and per-group secrets from the seed
	ids := make([]groupsig.ID, n)
	members := make([]*group_create.SimDKGMember, n)
	for i := 0; i < n; i++ {
		h := sha256.Sum256([]byte(fmt.Sprintf("member-%d-%d", p.Seed, i)))
		ids[i] = groupsig.DeserializeID(h[:])
		sec := sha256.Sum256([]byte(fmt.Sprintf("secret-%d-%d", p.Seed, i)))
		members[i] = group_create.SimNewDKGMember(ids[i], sec[:], n)
	}
	k := members[0].Threshold()
	if want := int(math.Ceil(float64(n) * 0.51)); k != want {
		return viol(-1, "threshold-wrong", "param", "group of %d members: the node derives threshold %d, 51%% rounded up is %d", n, k, want)
	}
	// DKG over the simulated transport
	deals := make([]map[string]model.SharePiece, n)
	for i := range members {
		deals[i] = members[i].Deal(ids)
		if len(deals[i]) != n {
			return viol(-1, "dkg-deal-incomplete", "deal", "dealer %d produced %d share pieces for %d members", i, len(deals[i]), n)
		}
	}
	done := make([]bool, n)
	var redeal map[string]model.SharePiece
	seen := map[int]bool{}
	for di, x := range p.Deliver {
		d, rcv := (x/n)%n, x%n
		if seen[x] {
			st.Fault("dkg_duplicate")
		}
		seen[x] = true
		st.Fault("dkg_reorder")
		piece := deals[d][ids[rcv].GetHexString()]
		if p.Redeal == d+1 && di >= p.RedealAt {
			if redeal == nil {
				// the same miner, a new context: what it hands out now must fit what it handed out before
				sec := sha256.Sum256([]byte(fmt.Sprintf("secret-%d-%d", p.Seed, d)))
				redeal = group_create.SimNewDKGMember(ids[d], sec[:], n).Deal(ids)
				st.Fault("dkg_dealer_context_lost_redeal")
			}
			piece = redeal[ids[rcv].GetHexString()]
		}
		if members[rcv].Receive(ids[d], piece) == 1 {
			done[rcv] = true
		}
		st.Ops++
	}
	for i := range done {
		if !done[i] {
			return viol(-1, "dkg-not-completed", "aggregate", "member %d received all %d share pieces but did not aggregate its keys", i, n)
		}
	}
	// reference: group secret = sum of the dealers' constant terms
	s := new(big.Int)
	var seedPubs []groupsig.Pubkey
	for _, m := range members {
		sk := m.SeedSecKey()
		s.Add(s, sk.GetBigInt())
		seedPubs = append(seedPubs, *groupsig.GeneratePubkey(sk))
	}
	s.Mod(s, bn256.Order)
	groupSecret := groupsig.NewSeckeyFromBigInt(s)
	refPub := groupsig.GeneratePubkey(*groupSecret)
	gpk := members[0].GroupPubKey()
	for i, m := range members {
		if !m.GroupPubKey().IsEqual(gpk) {
			return viol(-1, "group-pubkey-differs", "members", "member %d computed another group public key than member 0 (share-piece arrival order)", i)
		}
	}
	if !gpk.IsEqual(*refPub) || !gpk.IsEqual(*groupsig.AggregatePubkeys(seedPubs)) {
		return viol(-1, "group-pubkey-wrong", "reference", "the group public key is not the sum of the dealers' public keys / g2^(sum of secrets)")
	}

	arrSig := ""
	for mi := 0; mi < p.Messages; mi++ {
		msg := sha256.Sum256([]byte(fmt.Sprintf("msg-%d-%d", p.Seed, mi)))
		ref := groupsig.Sign(*groupSecret, msg[:])
		if !groupsig.VerifySig(gpk, msg[:], ref) {
			return viol(mi, "reference-does-not-verify", "reference", "H(m)^s does not verify under the group public key")
		}
		shares := make([]groupsig.Signature, n)
		for i, m := range members {
			sk := m.SignSecKey()
			pub := *groupsig.GeneratePubkey(sk)
			// every other member signs with its key as a restarted node holds it: written out and read back in
			// the hex and byte forms the joined-group store and the configuration use
			if (i+mi)%2 == 1 {
				var viaHex, viaBytes groupsig.Seckey
				if err := viaHex.SetHexString(sk.GetHexString()); err != nil {
					return viol(mi, "key-codec-error", "seckey-hex", "member %d's signing key cannot be read back from its hex form: %v", i, err)
				}
				if err := viaBytes.Deserialize(sk.Serialize()); err != nil {
					return viol(mi, "key-codec-error", "seckey-bytes", "member %d's signing key cannot be read back from its byte form: %v", i, err)
				}
				st.Fault("key_reloaded_from_storage_form")
				if mi%2 == 0 {
					sk = viaHex
				} else {
					sk = viaBytes
				}
			}
			shares[i] = groupsig.Sign(sk, msg[:])
			if !groupsig.VerifySig(pub, msg[:], shares[i]) {
				return viol(mi, "share-does-not-verify", "member-share", "member %d's signature share does not verify under its public share", i)
			}
		}
		for ci, arr := range p.Arrivals {
			simmap.Seed = p.MapSeeds[(ci+mi)%len(p.MapSeeds)]
			st.Fault("map_order_seed")
			st.Fault("internal_subset_seed")
			gen := model.NewGroupSignGenerator(k)
			distinct := map[int]bool{}
			recovered := false
			for _, x := range arr {
				x %= n
				if distinct[x] {
					st.Fault("share_duplicate")
				}
				if recovered {
					st.Fault("share_late_after_recovery")
				}
				distinct[x] = true
				_, g := gen.AddWitnessSign(ids[x], shares[x])
				st.Ops++
				if g && !recovered {
					recovered = true
					if len(distinct) < k {
						return viol(mi, "recovered-below-threshold", "collector", "collector %d produced a group signature from %d distinct shares, threshold %d", ci, len(distinct), k)
					}
				}
				if recovered {
					got := gen.GetGroupSign()
					if !bytes.Equal(got.Serialize(), ref.Serialize()) {
						return viol(mi, "recovered-signature-differs", "collector", "n=%d k=%d collector %d arrival %v: recovered signature is not H(m)^s", n, k, ci, arr)
					}
					if !gen.VerifyGroupSign(gpk, msg[:]) {
						return viol(mi, "recovered-signature-invalid", "collector", "collector %d: recovered signature does not verify under the group public key", ci)
					}
				}
			}
			if len(distinct) < n {
				st.Fault("share_drop")
			}
			if len(distinct) >= k && !recovered {
				return viol(mi, "not-recovered-at-threshold", "collector", "collector %d received %d distinct valid shares (threshold %d) and produced no group signature", ci, len(distinct), k)
			}
			if len(distinct) < k && gen.SignRecovered() {
				return viol(mi, "recovered-below-threshold", "collector", "collector %d holds a group signature with only %d distinct shares", ci, len(distinct))
			}
			if len(distinct) > k {
				arrSig = fmt.Sprintf("%s|%d:%v", arrSig, n, arr)
			}
			// direct recovery from everything the collector holds, under further seeds
			if len(distinct) >= k {
				mm := map[string]groupsig.Signature{}
				for x := range distinct {
					mm[ids[x].GetHexString()] = shares[x]
				}
				for _, ms := range p.MapSeeds {
					simmap.Seed = ms
					got := groupsig.RecoverGroupSignature(mm, k)
					if got == nil || !bytes.Equal(got.Serialize(), ref.Serialize()) {
						return viol(mi, "recovered-signature-differs", "direct-recover", "n=%d k=%d: RecoverGroupSignature over %d shares (map seed %x) is not H(m)^s", n, k, len(mm), ms)
					}
				}
			}
		}
		if p.Conc > 0 && mi == 0 {
			// one collector fed by concurrent message handlers: each task decodes its own copies of the shares
			// it delivers (as a handler does with the bytes of a message), adds them, and polls the collector
			gen := model.NewGroupSignGenerator(k)
			genB := model.NewGroupSignGenerator(k) // the beacon collector: same senders, another message
			msgB := sha256.Sum256([]byte(fmt.Sprintf("beacon-%d", p.Seed)))
			refB := groupsig.Sign(*groupSecret, msgB[:]).Serialize()
			wire := make([][]byte, n)
			wireB := make([][]byte, n)
			pkWire := make([][]byte, n)
			for i := range shares {
				wire[i] = shares[i].Serialize()
				sk := members[i].SignSecKey()
				wireB[i] = groupsig.Sign(sk, msgB[:]).Serialize()
				pkWire[i] = groupsig.GeneratePubkey(sk).Serialize()
			}
			refBytes := ref.Serialize()
			var cviol *simrt.Violation
			var names []string
			var tasks []func()
			order := r13Order(p.ConcSeed, n)
			for t := 0; t < p.Conc; t++ {
				t := t
				names = append(names, fmt.Sprintf("handler%d", t))
				tasks = append(tasks, func() {
					for pos, x := range order {
						if pos%p.Conc != t {
							continue
						}
						// what a verify-message handler does: check the sender's block share and beacon share
						// under the sender's public share (two different messages), then file both
						sig := groupsig.DeserializeSign(wire[x])
						sigB := groupsig.DeserializeSign(wireB[x])
						pk := groupsig.ByteToPublicKey(pkWire[x])
						simsched.Yield("c13.verify")
						okA := groupsig.VerifySig(pk, msg[:], *sig)
						simsched.Yield("c13.verify2")
						okB := groupsig.VerifySig(pk, msgB[:], *sigB)
						if (!okA || !okB) && cviol == nil {
							cviol = viol(mi, "share-does-not-verify", "concurrent-handler", "member %d's genuine share (block %v, beacon %v) was rejected by a handler running concurrently with others", x, okA, okB)
						}
						simsched.Yield("c13.add")
						gen.AddWitnessSign(ids[x], *sig)
						genB.AddWitnessSign(ids[x], *sigB)
						st.Ops++
						simsched.Yield("c13.poll")
						if gen.SignRecovered() {
							got := gen.GetGroupSign()
							simsched.Yield("c13.read")
							if !bytes.Equal(got.Serialize(), refBytes) && cviol == nil {
								cviol = viol(mi, "recovered-signature-differs", "concurrent-collector", "n=%d k=%d: a handler running concurrently with others was handed a group signature that is not H(m)^s", n, k)
							}
							if !gen.VerifyGroupSign(gpk, msg[:]) && cviol == nil {
								cviol = viol(mi, "recovered-signature-invalid", "concurrent-collector", "the collector's signature does not verify under the group public key while handlers run concurrently")
							}
						}
					}
				})
			}
			res := simsched.Run(simsched.Options{Seed: p.ConcSeed, Policy: "random", MaxPreempt: -1, MaxSteps: 400000}, names, tasks)
			st.Fault("concurrent_handlers")
			if res.Panic != nil {
				return viol(mi, "host-panic", "concurrent-collector", "%v", res.Panic)
			}
			if cviol != nil {
				return cviol
			}
			if !genB.SignRecovered() || !bytes.Equal(genB.GetGroupSign().Serialize(), refB) {
				return viol(mi, "recovered-signature-differs", "concurrent-collector-final-beacon", "n=%d k=%d: after all shares arrived through %d concurrent handlers the beacon collector does not hold H(m')^s", n, k, p.Conc)
			}
			if !gen.SignRecovered() || !bytes.Equal(gen.GetGroupSign().Serialize(), refBytes) {
				return viol(mi, "recovered-signature-differs", "concurrent-collector-final", "n=%d k=%d: after all %d shares arrived through %d concurrent handlers the collector does not hold H(m)^s", n, k, n, p.Conc)
			}
		}
		if p.Subsets && mi == 0 {
			// every k-subset
			idx := make([]int, k)
			var rec func(start, d int) *simrt.Violation
			rec = func(start, d int) *simrt.Violation {
				if d == k {
					mm := map[string]groupsig.Signature{}
					for _, x := range idx {
						mm[ids[x].GetHexString()] = shares[x]
					}
					got := groupsig.RecoverGroupSignature(mm, k)
					st.Ops++
					if got == nil || !bytes.Equal(got.Serialize(), ref.Serialize()) {
						s := append([]int{}, idx...)
						sort.Ints(s)
						return viol(mi, "recovered-signature-differs", "subset", "n=%d k=%d: subset %v recovers another signature", n, k, s)
					}
					return nil
				}
				for x := start; x < n; x++ {
					idx[d] = x
					if v := rec(x+1, d+1); v != nil {
						return v
					}
				}
				return nil
			}
			if v := rec(0, 0); v != nil {
				return v
			}
			st.Probe("all_k_subsets_enumerated")
		}
	}
	st.State(simrt.HashString(arrSig))
	if arrSig != "" {
		st.Nontrivial(simrt.HashString(arrSig))
	}
	return nil
}

func (c13) Shrink(raw json.RawMessage) []json.RawMessage {
	var p c13Plan
	json.Unmarshal(raw, &p)
	var out []json.RawMessage
	emit := func(q c13Plan) {
		b, _ := json.Marshal(q)
		out = append(out, b)
	}
	if len(p.Arrivals) > 1 {
		for i := range p.Arrivals {
			q := p
			q.Arrivals = [][]int{p.Arrivals[i]}
			emit(q)
		}
	}
	if p.Messages > 1 {
		q := p
		q.Messages = 1
		emit(q)
	}
	if p.Subsets {
		q := p
		q.Subsets = false
		emit(q)
	}
	for i, a := range p.Arrivals {
		for j := range a {
			q := p
			q.Arrivals = append([][]int{}, p.Arrivals...)
			q.Arrivals[i] = append(append([]int{}, a[:j]...), a[j+1:]...)
			emit(q)
		}
	}
	return out
}

func r13Order(seed uint64, n int) []int { return simrt.NewRand(seed ^ 0x6f72646572).Perm(n) }
