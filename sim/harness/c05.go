package harness

import (
	"encoding/json"
	"fmt"
	"math/big"
	"time"

	"com.tuntun.rangers/node/src/common"
	"com.tuntun.rangers/node/src/core"
	"com.tuntun.rangers/node/src/middleware/types"
	"com.tuntun.rangers/node/src/zzverif/node"
	"com.tuntun.rangers/node/src/zzverif/runner"
	"com.tuntun.rangers/node/src/zzverif/simdisk"
	"com.tuntun.rangers/node/src/zzverif/simmap"
	"com.tuntun.rangers/node/src/zzverif/simrt"
	"com.tuntun.rangers/node/src/zzverif/simsched"
)

// C05 — block store: one hash-linked canonical chain across reorgs and crashes.
//
// Generator pass: a tree of valid blocks is produced with the node's own exported
// API (CastBlock / VerifyBlock / GenerateBlock / AddBlockOnChain) on scratch
// incarnations booted from disk images of the parent block.
// Test pass: a fresh node receives the tree in a plan-chosen order (duplicates,
// orphans first, re-deliveries, restarts). Every store write inside a delivery is a
// crash point: the disk image after write k is booted as a new incarnation
// (ensureChainConsistency runs) and the invariant is checked there.

type c05Tx struct {
	From   int    `json:"f"`
	To     int    `json:"t"`
	Amount string `json:"a"`
}

type c05Block struct {
	Parent int     `json:"p"` // -1 = genesis, else index of an earlier block
	QN     uint64  `json:"qn"`
	PV     int64   `json:"pv"`
	Castor int     `json:"c"`
	Txs    []c05Tx `json:"txs,omitempty"`
	Skip   uint64  `json:"skip,omitempty"` // height slots skipped by this block
	ReTx   int     `json:"retx,omitempty"` // re-use the transactions of block ReTx-1 (sibling containing the same txs)
}

type c05Plan struct {
	Seed    uint64     `json:"seed"`
	Forks   string     `json:"forks"`
	Blocks  []c05Block `json:"blocks"`
	WidePV  bool       `json:"wide_pv,omitempty"` // prove values wider than 64 bits whose low words order the other way round (wave 7)
	Deliver []int      `json:"deliver"`        // block indices; -1 = restart; 1000+i = the branch ending at block i arrives through the sync path
	Crash   bool       `json:"crash"`          // enumerate crash points inside deliveries
	Full    bool       `json:"full,omitempty"` // full-node mode (log / header notifications are published by goroutines started during insertion and removal)
}

type c05 struct{}

func init() { runner.Register(c05{}) }

func (c05) ID() string    { return "C05" }
func (c05) Level() string { return "fault_enumeration" }

func (c05) Budget(tier string) runner.Budget {
	if tier == "thorough" {
		return runner.Budget{Plans: 6000, PlansPerProc: 6, Wall: 14 * time.Minute}
	}
	return runner.Budget{Plans: 480, PlansPerProc: 5, Wall: 75 * time.Second, MinPlans: 480}
}

func (c05) Describe() runner.Description {
	return runner.Description{
		Rule:        "each plan: a seeded tree of 2..12 valid blocks (<=3 siblings per parent; different/equal TotalQN, higher/lower/equal prove value - in 3 plans of 8 full-width prove values (above 64 bits, as a VRF output is) whose low 64 bits order the other way round -, with and without transfer transactions, siblings sharing transactions) generated with the node's own cast/verify/assemble API, then delivered to a fresh node in a seeded order with duplicates, orphans-before-parents, re-deliveries and restarts; in about a third of the plans one branch arrives through the sync path instead (a fork store rooted at the common ancestor, every block verified and executed on the fork, then merged: blockChainFork.triggerOnChain), as one delivery; the deliveries between two restarts run as one task of the seeded scheduler, so that a goroutine the node starts while handling a delivery is a task interleaved with the following deliveries. evaluations = invariant evaluations: after every delivery on the live node, and - fault enumeration - on a new incarnation booted from the disk image after EVERY individual store write of every delivery that wrote (exhaustive per plan). A quarter of the plans run the node in full-node mode (notifications published by goroutines started during insertion and removal, as scheduler tasks with at most 0-2 preemptions). For a sixth of the crash images the restart's own repair writes are crash points too (a second process death during recovery). Invariant: head reachable from genesis by parent links; height index = that chain (cache bypassed and cached); nothing indexed above the head; verify-hash exactly up to the head; persisted head record = head; head state opens and fully resolves; no add/remove mark at quiescence; without crash the head only moves to a chain of not-lower weight (TotalQN, then prove value, then hash at the fork point); after a crash inside a head change the head is the old head, the new head or a common ancestor (a delivery that merges several blocks is a sequence of head changes: every head it passed through counts as a new head); transactions of canonical blocks are executed with a receipt naming their canonical block, those of removed blocks are not executed and (live) pending again; after the crash the restarted node accepts a valid extension of its head. distinct_nontrivial = distinct (tree shape, delivery order, crash index) triples whose delivery changed the head.",
		Assumptions: []string{"stub ConsensusHelper accepts group signatures / VRF (judged by C13-C16)", "crash = process death after a completed store write (no torn or lost writes)", "the pending pool is memory-only by design, so 'pending again' is asserted on the live node and for the block the restart rolls back"},
		Real:        []string{"core/blockchain*.go (add, insert, remove, consistency repair, fork choice, verify, cast)", "service tx pool + executed store", "core/vmexecutor + executors (transfers, rewards, refunds)", "storage/account + trie on real goleveldb over simulated storage", "types wire codecs (block records)"},
		Stub:        []string{"ConsensusHelper", "network / sync processor (not started; its fork-store merge is driven directly)", "NTP clock"},
		FaultKinds:  []string{"crash_after_store_write", "restart", "duplicate_delivery", "orphan_first", "reorg", "sync_merge", "crash_during_recovery", "full_node_mode"},
		Exhaustive:  true,
	}
}

func (c05) Gen(seed uint64, tier string) json.RawMessage {
	r := simrt.NewRand(seed)
	p := c05Plan{Seed: seed, Forks: string(node.ForksDevLike), Crash: r.Chance(0.8)}
	p.Full = seed%4 == 0
	p.WidePV = (seed*0x9e3779b97f4a7c15)>>61 < 3 // ~3 plans in 8, decided without a draw so the other choices of a seed stay as they were
	if r.Chance(0.3) {
		p.Forks = string(node.ForksLatestSync)
	}
	if r.Chance(0.4) {
		// reorg scenario: a main chain, then a single competing block from an earlier fork point whose
		// weight ties or beats the whole main branch (multi-block removal), then possibly an extension
		L := r.Range(2, 5)
		qsum := make([]uint64, L+1)
		for i := 0; i < L; i++ {
			q := uint64(r.Range(1, 3))
			p.Blocks = append(p.Blocks, c05Block{Parent: i - 1, QN: q, PV: int64(r.Range(1, 4)), Castor: r.Intn(2)})
			if r.Chance(0.2) {
				p.Blocks[i].Skip = uint64(r.Range(1, 2))
			}
			if r.Chance(0.5) {
				p.Blocks[i].Txs = []c05Tx{{From: r.Intn(4), To: r.Intn(6), Amount: fmt.Sprintf("%d", r.Range(1, 50))}}
			}
		}
		for i := L - 1; i >= 0; i-- {
			qsum[i] = qsum[i+1] + p.Blocks[i].QN
		}
		d := r.Intn(L) // the competing block replaces blocks d..L-1
		comp := c05Block{Parent: d - 1, QN: qsum[d] + uint64(r.Intn(2)), PV: int64(r.Range(2, 7)), Castor: r.Intn(2)}
		if r.Chance(0.4) {
			comp.Skip = uint64(r.Range(1, 3)) // lands on a height the old branch used differently (or not at all)
		}
		if r.Chance(0.5) {
			// weight contest decided at the fork point: exactly equal TotalQN, prove values of the whole
			// neighbourhood drawn from one small range, the competitor possibly landing on a height the
			// old branch filled with a later block (fork choice must compare with the FIRST block after
			// the common ancestor, not with the block that happens to sit at the competitor's height)
			comp.QN = qsum[d]
			comp.Skip = 0
			if L-1-d > 0 && r.Chance(0.7) {
				comp.Skip = uint64(r.Range(1, L-1-d))
			}
			for i := d; i < L; i++ {
				p.Blocks[i].PV = int64(r.Range(1, 5))
			}
			comp.PV = int64(r.Range(1, 5))
			if r.Chance(0.5) {
				// the three values that matter (first old block after the fork point, old tip, competitor)
				// all different, in a seeded order
				pv := r.Perm(3)
				p.Blocks[d].PV, p.Blocks[L-1].PV, comp.PV = int64(pv[0]+1), int64(pv[1]+1), int64(pv[2]+1)
				if L-1 == d {
					comp.PV = int64(pv[2]%2 + 1 + r.Intn(2))
				}
			}
			if r.Chance(0.5) {
				// the old branch itself left the slot right after the fork point empty
				p.Blocks[d].Skip = uint64(r.Range(1, 2))
			}
		}
		if r.Chance(0.3) && len(p.Blocks[d].Txs) > 0 {
			comp.ReTx = d + 1 // carries the same transactions as the block it replaces
		} else if r.Chance(0.5) {
			comp.Txs = []c05Tx{{From: r.Intn(4), To: r.Intn(6), Amount: fmt.Sprintf("%d", r.Range(1, 50))}}
		}
		p.Blocks = append(p.Blocks, comp)
		if r.Chance(0.5) {
			p.Blocks = append(p.Blocks, c05Block{Parent: L, QN: 1, PV: 2, Castor: 0})
		}
		for i := range p.Blocks {
			p.Deliver = append(p.Deliver, i)
			if r.Chance(0.1) {
				p.Deliver = append(p.Deliver, i)
			}
			if r.Chance(0.06) {
				p.Deliver = append(p.Deliver, -1)
			}
		}
		if r.Chance(0.3) {
			p.Deliver = append(p.Deliver, r.Intn(L)) // a loser of the reorg is delivered again
		}
		if r.Chance(0.3) {
			// roles swapped, second branch through the sync path: the node holds the competitor's chain and
			// then fetches the multi-block branch from a peer (fork store, verification on the fork, merge)
			p.Deliver = nil
			for i := 0; i < d; i++ {
				p.Deliver = append(p.Deliver, i)
			}
			p.Deliver = append(p.Deliver, L)
			if r.Chance(0.1) {
				p.Deliver = append(p.Deliver, -1)
			}
			p.Deliver = append(p.Deliver, 1000+L-1)
			if len(p.Blocks) > L+1 && r.Chance(0.5) {
				p.Deliver = append(p.Deliver, L+1)
			}
		}
		b, _ := json.Marshal(p)
		return b
	}
	nb := r.Range(2, 7)
	if r.Chance(0.25) {
		nb = r.Range(8, 12)
	}
	depth := []int{}
	children := map[int]int{}
	for i := 0; i < nb; i++ {
		parent := -1
		if i > 0 {
			x := r.Float()
			switch {
			case x < 0.45: // extend the most recent block (long chains)
				parent = i - 1
			case x < 0.8: // sibling of the most recent block (reorgs at the tip)
				parent = p.Blocks[i-1].Parent
			default:
				parent = r.Range(-1, i-1)
			}
			for tries := 0; (children[parent] >= 3 || (parent >= 0 && depth[parent] >= 8)) && tries < 10; tries++ {
				parent = r.Range(-1, i-1)
			}
		}
		children[parent]++
		d := 1
		if parent >= 0 {
			d = depth[parent] + 1
		}
		depth = append(depth, d)
		b := c05Block{Parent: parent, QN: uint64(r.Range(1, 3)), PV: int64(r.Range(1, 4)), Castor: r.Intn(2)}
		if r.Chance(0.15) {
			b.Skip = uint64(r.Range(1, 2))
		}
		if r.Chance(0.25) {
			b.PV = 2 // equal prove values: hash tie-break
		}
		if parent != i-1 && r.Chance(0.6) {
			// a late sibling branch that should win or tie: heavier QN / higher prove value
			b.QN = uint64(r.Range(2, 5))
			b.PV = int64(r.Range(3, 7))
		}
		ntx := 0
		if r.Chance(0.6) {
			ntx = r.Range(1, 3)
		}
		for j := 0; j < ntx; j++ {
			b.Txs = append(b.Txs, c05Tx{From: r.Intn(len(node.Funded)), To: r.Intn(6), Amount: fmt.Sprintf("%d", r.Range(1, 50))})
		}
		// a sibling that carries the same transactions as an earlier sibling
		if r.Chance(0.2) {
			for k := 0; k < i; k++ {
				if p.Blocks[k].Parent == parent && len(p.Blocks[k].Txs) > 0 {
					b.Txs = nil
					b.ReTx = k + 1
					break
				}
			}
		}
		p.Blocks = append(p.Blocks, b)
	}
	// delivery order
	order := r.Perm(nb)
	if r.Chance(0.5) { // mostly-in-order delivery with a few swaps
		order = make([]int, nb)
		for i := range order {
			order[i] = i
		}
		for s := r.Intn(3); s > 0; s-- {
			a, b := r.Intn(nb), r.Intn(nb)
			order[a], order[b] = order[b], order[a]
		}
	}
	for _, x := range order {
		p.Deliver = append(p.Deliver, x)
		if r.Chance(0.12) {
			p.Deliver = append(p.Deliver, x) // duplicate
		}
		if r.Chance(0.08) {
			p.Deliver = append(p.Deliver, -1) // restart
		}
	}
	for s := r.Intn(4); s > 0; s-- { // late re-deliveries (orphans whose parent arrived meanwhile, losers of a reorg)
		p.Deliver = append(p.Deliver, r.Intn(nb))
	}
	if r.Chance(0.3) {
		// one branch arrives through the sync path; half of the time its blocks do not arrive singly at all
		x := r.Intn(nb)
		if r.Chance(0.5) {
			var keep []int
			for _, d := range p.Deliver {
				onBranch := false
				for y := x; y >= 0 && !onBranch; y = p.Blocks[y].Parent {
					onBranch = y == d
				}
				if !onBranch || r.Chance(0.3) {
					keep = append(keep, d)
				}
			}
			p.Deliver = keep
		}
		at := r.Intn(len(p.Deliver) + 1)
		p.Deliver = append(p.Deliver[:at], append([]int{1000 + x}, p.Deliver[at:]...)...)
	}
	b, _ := json.Marshal(p)
	return b
}

// ---------------------------------------------------------------------------

type c05Node struct {
	block *types.Block
	image *simdisk.Disk
	spec  c05Block
}

var c05Targets = []string{
	"0x2f4f09b722a6e5b77be17c9a99c785fa7035a09f", "0x42c8c9b13fc0573d18028b3398a887c4297ff646",
	"0xc05000000000000000000000000000000000aaa1", "0xc05000000000000000000000000000000000aaa2",
	"0xc05000000000000000000000000000000000aaa3", "0xc05000000000000000000000000000000000aaa4",
}

// c05BuildTree runs the generator pass. Returns nil when a spec cannot be realised
// (e.g. re-used transactions conflict): the plan is then skipped as trivial.
func c05BuildTree(p *c05Plan, st *simrt.Stats) ([]*c05Node, *simdisk.Disk, *types.BlockHeader) {
	forks := node.Forks(p.Forks)
	gdisk := simdisk.NewDisk()
	gn := node.Boot(gdisk, forks, false)
	genesis := gn.Chain.TopBlock()
	gimage := gdisk.Clone()
	tree := make([]*c05Node, len(p.Blocks))
	for i, spec := range p.Blocks {
		base := gimage
		if spec.Parent >= 0 {
			if tree[spec.Parent] == nil {
				return nil, nil, nil
			}
			base = tree[spec.Parent].image
		}
		d := base.Clone()
		n := node.Boot(d, forks, false)
		bs := node.BlockSpec{QN: spec.QN, PV: spec.PV, PVWide: p.WidePV, Castor: spec.Castor, TimeMs: int64(1000 * (i + 1)), Skip: spec.Skip}
		if spec.ReTx > 0 && tree[spec.ReTx-1] != nil {
			for _, tx := range tree[spec.ReTx-1].block.Transactions {
				c := *tx
				bs.Txs = append(bs.Txs, &c)
			}
		}
		for j, t := range spec.Txs {
			bs.Txs = append(bs.Txs, node.TransferTx(node.Funded[t.From%len(node.Funded)], 0, map[string]string{c05Targets[t.To%len(c05Targets)]: t.Amount}, fmt.Sprintf("b%d-t%d", i, j)))
		}
		b, err := n.CastBlock(bs)
		if err != nil {
			panic(runner.InfraError{Msg: fmt.Sprintf("generator: cast block %d: %v", i, err)})
		}
		if res := n.Chain.AddBlockOnChain(node.CloneBlock(b)); res != types.AddBlockSucc {
			panic(runner.InfraError{Msg: fmt.Sprintf("generator: own block %d not accepted: %d", i, res)})
		}
		tree[i] = &c05Node{block: b, image: d.Clone(), spec: spec}
	}
	return tree, gimage, genesis
}

type c05Known struct {
	byHash map[common.Hash]*types.Block
	txs    map[common.Hash][]common.Hash // tx hash -> blocks containing it
	gen    *types.BlockHeader
}

func (k *c05Known) ancestors(h common.Hash) []common.Hash {
	var out []common.Hash
	for {
		out = append(out, h)
		if h == k.gen.Hash {
			return out
		}
		b := k.byHash[h]
		if b == nil {
			return out
		}
		h = b.Header.PreHash
	}
}

func (k *c05Known) header(h common.Hash) *types.BlockHeader {
	if h == k.gen.Hash {
		return k.gen
	}
	if b := k.byHash[h]; b != nil {
		return b.Header
	}
	return nil
}

// weightNotLower implements the statement's fork-choice order on the known tree.
func (k *c05Known) weightNotLower(oldH, newH common.Hash) bool {
	if oldH == newH {
		return true
	}
	o, n := k.header(oldH), k.header(newH)
	if o == nil || n == nil {
		return false
	}
	if n.TotalQN != o.TotalQN {
		return n.TotalQN > o.TotalQN
	}
	ao, an := k.ancestors(oldH), k.ancestors(newH)
	// first blocks after the fork point
	io, in := len(ao)-1, len(an)-1
	for io >= 0 && in >= 0 && ao[io] == an[in] {
		io--
		in--
	}
	if io < 0 { // new extends old
		return true
	}
	if in < 0 { // new is an ancestor of old with equal TotalQN: impossible for qn>=1
		return false
	}
	fo, fn := k.header(ao[io]), k.header(an[in])
	if c := fn.ProveValue.Cmp(fo.ProveValue); c != 0 {
		return c > 0
	}
	return new(big.Int).SetBytes(fn.Hash.Bytes()).Cmp(new(big.Int).SetBytes(fo.Hash.Bytes())) >= 0
}

// c05Structure checks clauses 1-6 and 9 on the current incarnation. live=true adds the
// "pending again" part (the pending pool is memory-only).
func c05Structure(n *node.Node, k *c05Known, ev int, when string, live bool) *simrt.Violation {
	viol := func(clause, f string, a ...interface{}) *simrt.Violation {
		return simrt.Violationf("C05", clause, when, ev, f, a...)
	}
	H := n.Chain.TopBlock()
	if H == nil {
		return viol("no-head", "TopBlock() is nil")
	}
	// (1) parent links to genesis
	canon := map[common.Hash]uint64{}
	var chain []*types.BlockHeader
	cur := H
	for steps := 0; ; steps++ {
		chain = append(chain, cur)
		canon[cur.Hash] = cur.Height
		if cur.Height == 0 {
			if cur.Hash != k.gen.Hash {
				return viol("head-not-linked-to-genesis", "parent walk ends at height 0 with hash %x, genesis is %x", cur.Hash.Bytes()[:6], k.gen.Hash.Bytes()[:6])
			}
			break
		}
		pb := n.Chain.QueryBlockByHash(cur.PreHash)
		if pb == nil || pb.Header == nil {
			return viol("head-not-linked-to-genesis", "block %x at height %d: parent %x is not in the hash index", cur.Hash.Bytes()[:6], cur.Height, cur.PreHash.Bytes()[:6])
		}
		if pb.Header.Height >= cur.Height || steps > 64 {
			return viol("head-not-linked-to-genesis", "parent of height %d has height %d", cur.Height, pb.Header.Height)
		}
		cur = pb.Header
	}
	if hb := n.Chain.QueryBlockByHash(H.Hash); hb == nil {
		return viol("head-not-in-hash-index", "head %x is not in the hash index", H.Hash.Bytes()[:6])
	}
	// (2) height index equals the chain, cached and uncached
	for _, bh := range chain {
		u := n.Chain.QueryBlockHeaderByHeight(bh.Height, false)
		if u == nil || u.Hash != bh.Hash {
			return viol("height-index-wrong", "height %d (uncached) -> %v, chain has %x", bh.Height, hashOf(u), bh.Hash.Bytes()[:6])
		}
		c := n.Chain.QueryBlockHeaderByHeight(bh.Height, true)
		if c == nil || c.Hash != bh.Hash {
			return viol("height-cache-wrong", "height %d (cached) -> %v, chain has %x", bh.Height, hashOf(c), bh.Hash.Bytes()[:6])
		}
		if _, err := n.Chain.GetVerifyHash(bh.Height); err != nil {
			return viol("verify-hash-missing", "no verify hash for canonical height %d", bh.Height)
		}
	}
	// (2b) height slots the canonical chain skipped are not indexed (stale entries of an abandoned branch)
	for h := uint64(1); h < H.Height; h++ {
		onChain := false
		for _, bh := range chain {
			if bh.Height == h {
				onChain = true
			}
		}
		if onChain {
			continue
		}
		if core.SimHeightIndexed(h) {
			return viol("height-index-wrong", "height %d is indexed but the canonical chain has no block at that height", h)
		}
		if c := n.Chain.QueryBlockHeaderByHeight(h, true); c != nil {
			return viol("height-cache-wrong", "height %d answers %x from the cache but the canonical chain has no block at that height", h, c.Hash.Bytes()[:6])
		}
	}
	// (3) nothing above the head
	for h := H.Height + 1; h <= H.Height+4; h++ {
		if core.SimHeightIndexed(h) {
			return viol("indexed-above-head", "height %d is indexed but the head is at %d", h, H.Height)
		}
		if c := n.Chain.QueryBlockHeaderByHeight(h, true); c != nil {
			return viol("cached-above-head", "height %d answers from the cache but the head is at %d", h, H.Height)
		}
		if _, err := n.Chain.GetVerifyHash(h); err == nil {
			return viol("verify-hash-above-head", "verify hash present for height %d above the head %d", h, H.Height)
		}
	}
	// (4) persisted head record
	if rec := core.SimHeadRecord(); rec == nil || rec.Hash != H.Hash {
		return viol("head-record-wrong", "persisted head record %v, in-memory head %x", hashOf(rec), H.Hash.Bytes()[:6])
	}
	// (5) head state opens and resolves
	if err := node.WalkState(H.StateTree); err != nil {
		return viol("head-state-unresolvable", "state %x of head at height %d: %v", H.StateTree.Bytes()[:6], H.Height, err)
	}
	// (6) no marks at quiescence
	if a, r := core.SimMarks(); a || r {
		return viol("mark-left-behind", "add mark %v / remove mark %v present at a quiescent point", a, r)
	}
	// (9) executed <=> on the canonical chain
	for txh, blocks := range k.txs {
		var canonBlock *common.Hash
		for i := range blocks {
			if _, ok := canon[blocks[i]]; ok {
				canonBlock = &blocks[i]
			}
		}
		ex := n.Pool.GetExecuted(txh)
		if canonBlock != nil {
			if ex == nil {
				return viol("canonical-tx-not-executed", "transaction %x is in canonical block %x but has no executed record", txh.Bytes()[:6], canonBlock.Bytes()[:6])
			}
			if _, ok := canon[ex.Receipt.BlockHash]; !ok {
				return viol("receipt-names-non-canonical-block", "executed record of %x names block %x which is not canonical", txh.Bytes()[:6], ex.Receipt.BlockHash.Bytes()[:6])
			}
		} else {
			if ex != nil {
				return viol("removed-tx-still-executed", "transaction %x is in no canonical block but is marked executed (block %x)", txh.Bytes()[:6], ex.Receipt.BlockHash.Bytes()[:6])
			}
		}
	}
	return nil
}

func hashOf(h *types.BlockHeader) string {
	if h == nil {
		return "nil"
	}
	return fmt.Sprintf("%x", h.Hash.Bytes()[:6])
}

func (c05) Exec(raw json.RawMessage, st *simrt.Stats, log *simrt.Log) *simrt.Violation {
	var p c05Plan
	if err := json.Unmarshal(raw, &p); err != nil {
		panic(runner.InfraError{Msg: "bad plan: " + err.Error()})
	}
	simmap.Seed = simrt.Mix(p.Seed, 0x6d6170) | 1 // seeded map iteration order (instrumented build)
	tree, gimage, genesis := c05BuildTree(&p, st)
	if tree == nil {
		st.Probe("unrealisable_tree")
		return nil
	}
	k := &c05Known{byHash: map[common.Hash]*types.Block{}, txs: map[common.Hash][]common.Hash{}, gen: genesis}
	for _, t := range tree {
		k.byHash[t.block.Header.Hash] = t.block
		for _, tx := range t.block.Transactions {
			k.txs[tx.Hash] = append(k.txs[tx.Hash], t.block.Header.Hash)
		}
	}
	forks := node.Forks(p.Forks)
	disk := gimage.Clone()
	common.SetFullNode(p.Full)
	defer common.SetFullNode(false)
	if p.Full {
		st.Fault("full_node_mode")
	}
	n := node.Boot(disk, forks, false)
	if v := c05Structure(n, k, -1, "after-boot", true); v != nil {
		return v
	}
	st.Evaluations++

	type image struct {
		disk     *simdisk.Disk
		ev, k, w int
		old, new common.Hash
		passed   []common.Hash // in-memory heads seen at the store writes of this delivery
	}
	var images []image
	delivered := map[int]bool{}
	shape := fmt.Sprintf("%v|%v", p.Blocks, p.Deliver)
	removedPendingCheck := func(ev int, oldHead, newHead common.Hash) *simrt.Violation {
		// live reorg: transactions of removed blocks that are not on the new chain are pending again
		newAnc := map[common.Hash]bool{}
		for _, h := range k.ancestors(newHead) {
			newAnc[h] = true
		}
		onNew := map[common.Hash]bool{}
		for h := range newAnc {
			if b := k.byHash[h]; b != nil {
				for _, tx := range b.Transactions {
					onNew[tx.Hash] = true
				}
			}
		}
		for _, h := range k.ancestors(oldHead) {
			if newAnc[h] {
				break
			}
			b := k.byHash[h]
			if b == nil {
				continue
			}
			for _, tx := range b.Transactions {
				if onNew[tx.Hash] {
					continue
				}
				if got, _ := n.Pool.GetTransaction(tx.Hash); got == nil {
					return simrt.Violationf("C05", "removed-tx-not-pending", "live-reorg", ev, "transaction %x of removed block %x is neither pending nor executed after the reorg", tx.Hash.Bytes()[:6], h.Bytes()[:6])
				}
				found := false
				for _, r := range n.Pool.GetReceived() {
					if r.Hash == tx.Hash {
						found = true
					}
				}
				if !found {
					return simrt.Violationf("C05", "removed-tx-not-pending", "live-reorg", ev, "transaction %x of removed block %x is not in the pending pool after the reorg", tx.Hash.Bytes()[:6], h.Bytes()[:6])
				}
			}
		}
		return nil
	}

	// syncDeliver: the branch ending at block x arrives the way the sync processor handles a chain piece of a
	// peer: fork store rooted at the common ancestor with the local chain, verification on the fork, merge.
	syncDeliver := func(i, x int) *simrt.Violation {
		if x >= len(tree) {
			return nil
		}
		var path []int
		for y := x; y >= 0; y = tree[y].spec.Parent {
			path = append([]int{y}, path...)
		}
		anc := n.Chain.QueryBlockByHash(k.gen.Hash)
		first := 0
		for j, y := range path {
			h := tree[y].block.Header
			if ch := n.Chain.QueryBlockHeaderByHeight(h.Height, false); ch != nil && ch.Hash == h.Hash {
				if b := n.Chain.QueryBlockByHash(h.Hash); b != nil {
					anc, first = b, j+1
					continue
				}
			}
			break
		}
		if anc == nil || anc.Header == nil {
			return simrt.Violationf("C05", "head-not-linked-to-genesis", "sync-delivery", i, "the genesis block is not in the hash index")
		}
		var blocks []*types.Block
		for _, y := range path[first:] {
			blocks = append(blocks, node.CloneBlock(tree[y].block))
			delivered[y] = true
		}
		oldHead := n.Chain.TopBlock().Hash
		var mids []*simdisk.Disk
		var passed []common.Hash
		if p.Crash {
			node.OnWrite = func(idx int, kind string) {
				mids = append(mids, disk.Clone())
				if tb := n.Chain.TopBlock(); tb != nil && (len(passed) == 0 || passed[len(passed)-1] != tb.Hash) {
					passed = append(passed, tb.Hash)
				}
			}
		}
		w0 := node.Writes
		verified, tried := core.SimSyncMerge(anc, blocks)
		node.OnWrite = nil
		nw := node.Writes - w0
		newHead := n.Chain.TopBlock().Hash
		st.Fault("sync_merge")
		if tried {
			st.Probe("sync_merge_tried")
		}
		log.Add("%d sync b%d: ancestor h=%d, %d blocks, %d verified on the fork, merge tried=%v writes=%d head %x -> %x", i, x, anc.Header.Height, len(blocks), verified, tried, nw, oldHead.Bytes()[:4], newHead.Bytes()[:4])
		if v := c05Structure(n, k, i, "after-sync-delivery", true); v != nil {
			return v
		}
		st.Evaluations++
		if !k.weightNotLower(oldHead, newHead) {
			return simrt.Violationf("C05", "head-moved-to-lower-weight", "after-sync-delivery", i, "head moved from %x (qn %d) to %x (qn %d), which is lower by (TotalQN, prove value, hash at the fork point)", oldHead.Bytes()[:6], k.header(oldHead).TotalQN, newHead.Bytes()[:6], k.header(newHead).TotalQN)
		}
		if newHead != oldHead {
			isExt := false
			for _, h := range k.ancestors(newHead) {
				if h == oldHead {
					isExt = true
				}
			}
			if !isExt {
				st.Fault("reorg")
				st.Probe("sync_merge_reorg")
				if v := removedPendingCheck(i, oldHead, newHead); v != nil {
					return v
				}
			}
		}
		for j, m := range mids {
			images = append(images, image{disk: m, ev: i, k: j + 1, w: len(mids), old: oldHead, new: newHead, passed: passed})
		}
		return nil
	}

	// the deliveries run as ONE task of the seeded scheduler: a goroutine the node starts while handling a
	// delivery becomes a task that is interleaved with the following deliveries (instead of a real goroutine
	// whose timing nobody controls)
	deliverRange := func(from, to int) *simrt.Violation {
		for i := from; i < to; i++ {
			d := p.Deliver[i]
			st.Ops++
			if d < 0 {
				n = node.Boot(disk, forks, false)
				st.Fault("restart")
				log.Add("%d restart head=%s", i, hashOf(n.Chain.TopBlock()))
				if v := c05Structure(n, k, i, "after-restart", false); v != nil {
					return v
				}
				st.Evaluations++
				continue
			}
			if d >= 1000 {
				if v := syncDeliver(i, d-1000); v != nil {
					return v
				}
				continue
			}
			if d >= len(tree) {
				continue
			}
			blk := node.CloneBlock(tree[d].block)
			oldHead := n.Chain.TopBlock().Hash
			if delivered[d] {
				st.Fault("duplicate_delivery")
			}
			if !delivered[d] && tree[d].spec.Parent >= 0 && !delivered[tree[d].spec.Parent] {
				st.Fault("orphan_first")
			}
			delivered[d] = true
			var mids []*simdisk.Disk
			var passed []common.Hash
			if p.Crash {
				node.OnWrite = func(idx int, kind string) {
					mids = append(mids, disk.Clone())
					if tb := n.Chain.TopBlock(); tb != nil && (len(passed) == 0 || passed[len(passed)-1] != tb.Hash) {
						passed = append(passed, tb.Hash)
					}
				}
			}
			w0 := node.Writes
			res := n.Chain.AddBlockOnChain(blk)
			node.OnWrite = nil
			nw := node.Writes - w0
			newHead := n.Chain.TopBlock().Hash
			log.Add("%d deliver b%d h=%d qn=%d pv=%v -> res=%d writes=%d head %x -> %x", i, d, blk.Header.Height, blk.Header.TotalQN, blk.Header.ProveValue, res, nw, oldHead.Bytes()[:4], newHead.Bytes()[:4])
			if v := c05Structure(n, k, i, "after-delivery", true); v != nil {
				return v
			}
			st.Evaluations++
			// (7) weight monotonicity
			if !k.weightNotLower(oldHead, newHead) {
				return simrt.Violationf("C05", "head-moved-to-lower-weight", "after-delivery", i, "head moved from %x (qn %d) to %x (qn %d), which is lower by (TotalQN, prove value, hash at the fork point)", oldHead.Bytes()[:6], k.header(oldHead).TotalQN, newHead.Bytes()[:6], k.header(newHead).TotalQN)
			}
			// a valid extension of the head delivered to a healthy node must be accepted
			if blk.Header.PreHash == oldHead && res != types.AddBlockSucc && res != types.BlockExisted {
				return simrt.Violationf("C05", "valid-extension-rejected", "after-delivery", i, "block %d extends the head but AddBlockOnChain returned %d", d, res)
			}
			if newHead != oldHead {
				anc := k.ancestors(oldHead)
				isExt := false
				for _, h := range k.ancestors(newHead) {
					if h == oldHead {
						isExt = true
					}
				}
				if !isExt {
					st.Fault("reorg")
					_ = anc
					if v := removedPendingCheck(i, oldHead, newHead); v != nil {
						return v
					}
				}
			}
			for j, m := range mids {
				if j+1 < len(mids) || true {
					images = append(images, image{disk: m, ev: i, k: j + 1, w: len(mids), old: oldHead, new: newHead, passed: passed})
				}
			}
		}
		return nil
	}
	// segments between restarts run inside the scheduler; a restart itself (booting an incarnation starts the
	// node's service goroutines, which never end) runs outside it
	for a := 0; a < len(p.Deliver); {
		b := a
		if p.Deliver[a] < 0 {
			if v := deliverRange(a, a+1); v != nil {
				return v
			}
			a++
			continue
		}
		for b < len(p.Deliver) && p.Deliver[b] >= 0 {
			b++
		}
		var loopViol *simrt.Violation
		from, to := a, b
		// in full-node mode the number of preemptions is bounded (0-2): a goroutine started during an insertion
		// then often runs only when the deliverer waits or has finished the segment
		maxPre := -1
		if p.Full {
			maxPre = int(p.Seed>>3) % 3
		}
		sres := simsched.Run(simsched.Options{Seed: p.Seed ^ 0x5ced ^ uint64(a), Policy: "random", MaxPreempt: maxPre, MaxSteps: 50000000}, []string{"deliverer"}, []func(){func() { loopViol = deliverRange(from, to) }})
		if sres.Panic != nil {
			return simrt.Violationf("C05", "host-panic", "delivery", a, "%v", sres.Panic)
		}
		if loopViol != nil {
			return loopViol
		}
		a = b
	}

	// fault enumeration: crash after write k of delivery ev, restart
	var deferred *simrt.Violation
	for _, im := range images {
		// the restart's own store writes (the repair of a half-done insertion or removal: a clean boot writes
		// nothing) are crash points too, for a sixth of the images
		var recovery []*simdisk.Disk
		if (p.Seed+uint64(im.ev*31+im.k))%6 == 0 {
			imd := im.disk
			node.BootOnWrite = func(idx int, kind string) { recovery = append(recovery, imd.Clone()) }
		}
		rn := node.Boot(im.disk, forks, false)
		node.OnWrite = nil
		st.Fault("crash_after_store_write")
		when := "restart-after-crash"
		if v := c05Structure(rn, k, im.ev, when, false); v != nil {
			v.Detail += fmt.Sprintf(" (crash after store write %d of %d of delivery %d)", im.k, im.w, im.ev)
			return v
		}
		st.Evaluations++
		// (8) head after a crash inside a head change
		h := rn.Chain.TopBlock().Hash
		// One delivery can run several head changes in sequence (the delivered block, then
		// cached future blocks that were waiting for it): every head the node legitimately
		// passed through is an ancestor of the final head. Allowed: the old head, or any
		// ancestor of the new head (new head, new-branch intermediates of chained additions,
		// common ancestors). Not allowed: anything else, in particular an intermediate block
		// of the OLD branch.
		ok := h == im.old
		for _, x := range k.ancestors(im.new) {
			if x == h {
				ok = true
			}
		}
		// a delivery that merges several blocks (sync path, or a block that releases cached future blocks) passes
		// through heads that are NOT ancestors of its final head: b0, then the waiting orphan b1 on top of it,
		// then a reorg to b0's heavier child b2. Each of them was the new head of one of the delivery's head
		// changes. Allowed as well: every head the live node showed at one of this delivery's store writes that
		// is not itself a block of the old branch, and the ancestors of such a head.
		if !ok {
			oldBranch := map[common.Hash]bool{}
			for _, x := range k.ancestors(im.old) {
				oldBranch[x] = true
			}
			for _, ph := range im.passed {
				if oldBranch[ph] {
					continue
				}
				for _, x := range k.ancestors(ph) {
					if x == h {
						ok = true
					}
				}
			}
		}
		if !ok {
			where := "not-old-new-or-common-ancestor"
			// shape: is it an intermediate block of the old branch (multi-block removal interrupted)?
			for _, x := range k.ancestors(im.old) {
				if x == h {
					where = "intermediate-block-of-old-branch"
				}
			}
			v := simrt.Violationf("C05", "head-after-crash", where, im.ev, "after a crash following store write %d of %d of delivery %d the head is %x; old head %x, new head %x", im.k, im.w, im.ev, h.Bytes()[:6], im.old.Bytes()[:6], im.new.Bytes()[:6])
			if where != "intermediate-block-of-old-branch" {
				return v
			}
			// recorded finding class: keep judging every other clause on every other image, report it last
			if deferred == nil {
				deferred = v
			}
		}
		if im.old != im.new {
			st.Nontrivial(simrt.Mix(simrt.HashString(shape), uint64(im.ev*1000+im.k)))
		}
		// progress once faults stop: a valid child of the restarted head is accepted
		for _, t := range tree {
			if t.block.Header.PreHash == h {
				res := rn.Chain.AddBlockOnChain(node.CloneBlock(t.block))
				if res != types.AddBlockSucc {
					return simrt.Violationf("C05", "no-progress-after-crash", "extension-rejected", im.ev, "restarted after a crash (write %d of %d of delivery %d) with head %x; the valid child %x was rejected with %d", im.k, im.w, im.ev, h.Bytes()[:6], t.block.Header.Hash.Bytes()[:6], res)
				}
				if v := c05Structure(rn, k, im.ev, "after-progress", true); v != nil {
					return v
				}
				st.Evaluations++
				break
			}
		}
		if len(recovery) > 0 {
			if v := c05SecondCrash(recovery, forks, k, im.ev, im.old, im.new, im.passed, st, fmt.Sprintf("crash after store write %d of %d of delivery %d", im.k, im.w, im.ev)); v != nil {
				return v
			}
		}
	}
	st.State(simrt.HashString(shape))
	return deferred
}

// c05SecondCrash boots the images taken during a restart's own repair writes: the process died again.
func c05SecondCrash(recovery []*simdisk.Disk, forks node.Forks, k *c05Known, ev int, old, new common.Hash, passed []common.Hash, st *simrt.Stats, desc string) *simrt.Violation {
	for j, d2 := range recovery {
		rn2 := node.Boot(d2, forks, false)
		st.Fault("crash_during_recovery")
		if v := c05Structure(rn2, k, ev, "restart-after-second-crash", false); v != nil {
			v.Detail += fmt.Sprintf(" (%s, then a second crash after repair write %d of %d of the restart)", desc, j+1, len(recovery))
			return v
		}
		st.Evaluations++
		h := rn2.Chain.TopBlock().Hash
		ok := h == old
		for _, x := range k.ancestors(new) {
			if x == h {
				ok = true
			}
		}
		inOld := false
		for _, x := range k.ancestors(old) {
			if x == h {
				inOld = true
			}
		}
		for _, ph := range passed {
			for _, x := range k.ancestors(ph) {
				if x == h {
					ok = true
				}
			}
		}
		if !ok && !inOld {
			return simrt.Violationf("C05", "head-after-crash", "not-old-new-or-common-ancestor", ev, "%s, then a second crash after repair write %d of %d of the restart: the head is %x; old head %x, new head %x", desc, j+1, len(recovery), h.Bytes()[:6], old.Bytes()[:6], new.Bytes()[:6])
		}
	}
	return nil
}

func (c05) Shrink(raw json.RawMessage) []json.RawMessage {
	var p c05Plan
	json.Unmarshal(raw, &p)
	var out []json.RawMessage
	emit := func(q c05Plan) {
		b, _ := json.Marshal(q)
		out = append(out, b)
	}
	// drop deliveries
	for chunk := len(p.Deliver) / 2; chunk >= 1; chunk /= 2 {
		for s := 0; s+chunk <= len(p.Deliver); s += chunk {
			q := p
			q.Deliver = append(append([]int{}, p.Deliver[:s]...), p.Deliver[s+chunk:]...)
			emit(q)
		}
	}
	// drop the last block (if nothing depends on it) and its deliveries
	last := len(p.Blocks) - 1
	if last > 0 {
		used := false
		for _, b := range p.Blocks {
			if b.ReTx-1 == last {
				used = true
			}
		}
		if !used {
			q := p
			q.Blocks = p.Blocks[:last]
			q.Deliver = nil
			for _, d := range p.Deliver {
				if d != last && d != 1000+last {
					q.Deliver = append(q.Deliver, d)
				}
			}
			emit(q)
		}
	}
	// drop transactions
	for i, b := range p.Blocks {
		if len(b.Txs) > 0 {
			q := p
			q.Blocks = append([]c05Block{}, p.Blocks...)
			q.Blocks[i].Txs = b.Txs[:len(b.Txs)-1]
			emit(q)
		}
	}
	if p.Forks != string(node.ForksDevLike) {
		q := p
		q.Forks = string(node.ForksDevLike)
		emit(q)
	}
	return out
}
