// Package model holds the small executable reference models the oracles compare
// the real code against. Nothing here imports the code under judgement.
package model

import (
	"sort"

	"golang.org/x/crypto/sha3"
)

// ---- minimal RLP encoder (strings and lists only), independent of storage/rlp ----

func rlpLen(n int, off byte) []byte {
	if n < 56 {
		return []byte{off + byte(n)}
	}
	var be []byte
	for x := n; x > 0; x >>= 8 {
		be = append([]byte{byte(x)}, be...)
	}
	return append([]byte{off + 55 + byte(len(be))}, be...)
}

func RlpString(b []byte) []byte {
	if len(b) == 1 && b[0] < 0x80 {
		return []byte{b[0]}
	}
	return append(rlpLen(len(b), 0x80), b...)
}

// RlpList wraps already-encoded items.
func RlpList(items ...[]byte) []byte {
	n := 0
	for _, it := range items {
		n += len(it)
	}
	out := rlpLen(n, 0xc0)
	for _, it := range items {
		out = append(out, it...)
	}
	return out
}

func Keccak(b []byte) []byte {
	h := sha3.NewLegacyKeccak256()
	h.Write(b)
	return h.Sum(nil)
}

// ---- canonical Merkle-Patricia-trie root from a key/value set (Yellow Paper, appendix D) ----

type mptItem struct {
	nib []byte
	val []byte
}

func hexPrefix(nib []byte, leaf bool) []byte {
	flag := byte(0)
	if leaf {
		flag = 2
	}
	var out []byte
	if len(nib)%2 == 1 {
		out = append(out, (flag+1)<<4|nib[0])
		nib = nib[1:]
	} else {
		out = append(out, flag<<4)
	}
	for i := 0; i < len(nib); i += 2 {
		out = append(out, nib[i]<<4|nib[i+1])
	}
	return out
}

// nodeRef is the reference to a child: the node's RLP itself when shorter than 32
// bytes, else the RLP string of its keccak hash.
func nodeRef(enc []byte) []byte {
	if len(enc) < 32 {
		return enc
	}
	return RlpString(Keccak(enc))
}

func mptNode(items []mptItem, depth int) []byte {
	if len(items) == 1 {
		return RlpList(RlpString(hexPrefix(items[0].nib[depth:], true)), RlpString(items[0].val))
	}
	// longest common prefix from depth
	first := items[0].nib
	cp := len(first) - depth
	for _, it := range items[1:] {
		n := 0
		for depth+n < len(it.nib) && n < cp && it.nib[depth+n] == first[depth+n] {
			n++
		}
		cp = n
	}
	if cp > 0 {
		child := mptNode(items, depth+cp)
		return RlpList(RlpString(hexPrefix(first[depth:depth+cp], false)), nodeRef(child))
	}
	slots := make([][]byte, 17)
	for i := range slots {
		slots[i] = []byte{0x80}
	}
	i := 0
	if len(items[0].nib) == depth { // a key that ends here (prefix of the others)
		slots[16] = RlpString(items[0].val)
		i = 1
	}
	for i < len(items) {
		n := items[i].nib[depth]
		j := i
		for j < len(items) && items[j].nib[depth] == n {
			j++
		}
		slots[n] = nodeRef(mptNode(items[i:j], depth+1))
		i = j
	}
	return RlpList(slots...)
}

// EmptyRoot is keccak(rlp("")).
var EmptyRoot = Keccak([]byte{0x80})

// MPTRoot computes the canonical root of the given content. Empty values are not members.
func MPTRoot(content map[string][]byte) []byte {
	var items []mptItem
	for k, v := range content {
		if len(v) == 0 {
			continue
		}
		nib := make([]byte, 0, 2*len(k))
		for i := 0; i < len(k); i++ {
			nib = append(nib, k[i]>>4, k[i]&15)
		}
		items = append(items, mptItem{nib, v})
	}
	if len(items) == 0 {
		return EmptyRoot
	}
	sort.Slice(items, func(i, j int) bool { return string(items[i].nib) < string(items[j].nib) })
	return Keccak(mptNode(items, 0))
}
