//go:build verif
// +build verif

package network

import (
	"strconv"

	"com.tuntun.rangers/node/src/common"
	"com.tuntun.rangers/node/src/middleware/log"
	"com.tuntun.rangers/node/src/utility"
)

// In-package driver for the deterministic simulator (Go -overlay from /verif/overlay).

var simConn *WorkerConn

// SimInit prepares the receive path without opening any socket.
func SimInit(consensusHandler MsgHandler) {
	idx := strconv.Itoa(common.InstanceIndex)
	p2pLogger = log.GetLoggerByIndex(log.P2PLogConfig, idx)
	bizLogger = log.GetLoggerByIndex(log.P2PBizLogConfig, idx)
	txRcvLogger = log.GetLoggerByIndex(log.TxRcvLogConfig, idx)
	// the real Init builds the frame-level receive callback (doRcv); with the offline switch (hook H9)
	// it neither dials the gateway nor starts the socket goroutines
	SimOffline = true
	simConn = &WorkerConn{}
	simConn.Init("ws://offline", make([]byte, netIdSize), consensusHandler, p2pLogger)
}

// SimFrame feeds one websocket frame (protocol header + body) as received from the gateway: header
// parsing and the connection's receive callback run as in baseConn.loop, in the calling goroutine.
func SimFrame(frame []byte) {
	header, msg := simConn.unloadMsg(frame)
	simConn.doRcv(header, msg)
}

// SimFrameFor builds a frame with the given 4-byte method around a body (what the gateway relays).
func SimFrameFor(method []byte, sourceId uint64, body []byte) []byte {
	h := simConn.headerToBytes(wsHeader{method: method})
	copy(h[4:12], utility.UInt64ToByte(sourceId))
	return append(h, body...)
}

// SimMethods returns the method codes a worker connection accepts (send, broadcast, group, to-manager)
// plus one it refuses.
func SimMethods() [][]byte {
	return [][]byte{methodCodeSend, methodCodeBroadcast, methodCodeSendToGroup, methodSendToManager, methodSetNetId}
}

// SimDeliver feeds raw bytes into the node's receive path exactly as a websocket
// frame body from peer `from` would be.
func SimDeliver(data []byte, from string) { simConn.handleMessage(data, from) }

// SimMarshalMessage / SimUnmarshalMessage expose the envelope codec.
func SimMarshalMessage(m Message) ([]byte, error)    { return marshalMessage(m) }
func SimUnmarshalMessage(b []byte) (*Message, error) { return unMarshalMessage(b) }
