// Package evmasm is a tiny EVM assembler for the harness-generated programs.
package evmasm

import "math/big"

const (
	STOP, ADD, MUL, SUB       = 0x00, 0x01, 0x02, 0x03
	LT, GT, EQ, ISZERO        = 0x10, 0x11, 0x14, 0x15
	AND, OR                   = 0x16, 0x17
	ADDRESS, BALANCE, ORIGIN  = 0x30, 0x31, 0x32
	CALLER, CALLVALUE         = 0x33, 0x34
	CALLDATALOAD, CALLDATASIZE = 0x35, 0x36
	CODECOPY                  = 0x39
	EXTCODESIZE               = 0x3b
	RETURNDATASIZE, RETURNDATACOPY = 0x3d, 0x3e
	SELFBALANCE               = 0x47
	POP, MLOAD, MSTORE        = 0x50, 0x51, 0x52
	SLOAD, SSTORE             = 0x54, 0x55
	JUMP, JUMPI, PC, GAS      = 0x56, 0x57, 0x58, 0x5a
	JUMPDEST                  = 0x5b
	TLOAD, TSTORE             = 0x5c, 0x5d
	PUSH1, PUSH2, PUSH20, PUSH32 = 0x60, 0x61, 0x73, 0x7f
	DUP1, DUP2, SWAP1         = 0x80, 0x81, 0x90
	LOG0, LOG1, LOG2          = 0xa0, 0xa1, 0xa2
	CREATE, CALL, CALLCODE    = 0xf0, 0xf1, 0xf2
	RETURN, DELEGATECALL      = 0xf3, 0xf4
	CREATE2, STATICCALL       = 0xf5, 0xfa
	REVERT, INVALID, SELFDESTRUCT = 0xfd, 0xfe, 0xff
)

// Code is a growing byte string of EVM code.
type Code []byte

func (c *Code) Op(ops ...byte) *Code { *c = append(*c, ops...); return c }

// Push pushes an unsigned value with the shortest PUSHn.
func (c *Code) Push(v uint64) *Code {
	b := new(big.Int).SetUint64(v).Bytes()
	if len(b) == 0 {
		b = []byte{0}
	}
	return c.PushBytes(b)
}

// PushBytes pushes up to 32 bytes.
func (c *Code) PushBytes(b []byte) *Code {
	if len(b) == 0 {
		b = []byte{0}
	}
	if len(b) > 32 {
		b = b[len(b)-32:]
	}
	*c = append(*c, byte(PUSH1+len(b)-1))
	*c = append(*c, b...)
	return c
}

// Sstore: storage[key] = val
func (c *Code) Sstore(key, val uint64) *Code { return c.Push(val).Push(key).Op(SSTORE) }

// Tstore: transient[key] = val
func (c *Code) Tstore(key, val uint64) *Code { return c.Push(val).Push(key).Op(TSTORE) }

// Log1 emits a log with one topic and 32 bytes of data (the word `data`).
func (c *Code) Log1(topic, data uint64) *Code {
	return c.Push(data).Push(0).Op(MSTORE).Push(topic).Push(32).Push(0).Op(LOG1)
}

// ReturnWord returns the 32-byte word on top of the stack.
func (c *Code) ReturnTop() *Code { return c.Push(0).Op(MSTORE).Push(32).Push(0).Op(RETURN) }

// Revert reverts with empty data.
func (c *Code) Revert() *Code { return c.Push(0).Push(0).Op(REVERT) }

// Call performs CALL(gas, to, value, no input, no output) and leaves the success flag on the stack.
func (c *Code) Call(kind byte, gas uint64, to []byte, value uint64) *Code {
	c.Push(0).Push(0).Push(0).Push(0) // outSize outOff inSize inOff
	if kind == CALL || kind == CALLCODE {
		c.Push(value)
	}
	c.PushBytes(to)
	if gas == 0 {
		c.Op(GAS)
	} else {
		c.Push(gas)
	}
	return c.Op(kind)
}

// Deployer wraps runtime code into init code that returns it.
func Deployer(runtime []byte) []byte {
	var c Code
	// PUSH2 len, DUP1, PUSH2 off, PUSH1 0, CODECOPY, PUSH1 0, RETURN  => 3+1+3+2+1+2+1 = 13 bytes
	n := len(runtime)
	c.Op(PUSH2, byte(n>>8), byte(n), DUP1, PUSH2, 0, 13, PUSH1, 0, CODECOPY, PUSH1, 0, RETURN)
	return append(c, runtime...)
}
