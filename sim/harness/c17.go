package harness

import (
	"encoding/json"
	"fmt"
	"sort"
	"strings"
	"time"

	"com.tuntun.rangers/node/src/common"
	"com.tuntun.rangers/node/src/middleware"
	"com.tuntun.rangers/node/src/middleware/types"
	"com.tuntun.rangers/node/src/service"
	"com.tuntun.rangers/node/src/storage/account"
	"com.tuntun.rangers/node/src/zzverif/node"
	"com.tuntun.rangers/node/src/zzverif/runner"
	"com.tuntun.rangers/node/src/zzverif/simdisk"
	"com.tuntun.rangers/node/src/zzverif/simmap"
	"com.tuntun.rangers/node/src/zzverif/simrt"
)

// C17 — tx pool: at most once, never ahead of nonce, no corruption.
//
// Simulated system: real TxPool instances (pending container, executed store on
// goleveldb over the simulated disk, eviction cache) on a booted node. Plan =
// history of add / pack / mark-executed (with evictions) / unmark (reorg) / lookups /
// simulated cycle-ticker firings / restarts, checked against a sequential reference
// pool after every operation.

type c17Op struct {
	K string `json:"k"`           // add pack mark unmark get tick restart addmany
	T int    `json:"t,omitempty"` // transaction index
	B int    `json:"b,omitempty"` // block number for mark/unmark
	N int    `json:"n,omitempty"` // count (mark: how many pending; addmany)
	E int    `json:"e,omitempty"` // mark: how many evicted
	S int    `json:"s,omitempty"` // pack: state nonce variant
}

type c17Tx struct {
	Sender int    `json:"s"`
	Nonce  uint64 `json:"n"`
	ReqID  uint64 `json:"r,omitempty"`
	Big    int    `json:"big,omitempty"` // payload size in KiB (executed records above 100 KiB are flushed in several batches)
}

type c17Plan struct {
	Seed uint64  `json:"seed"`
	Txs  []c17Tx `json:"txs"`
	Ops  []c17Op `json:"ops"`
}

type c17 struct{}

func init() { runner.Register(c17{}) }

func (c17) ID() string    { return "C17" }
func (c17) Level() string { return "exploration" }

func (c17) Budget(tier string) runner.Budget {
	if tier == "thorough" {
		return runner.Budget{Plans: 60000, PlansPerProc: 60, Wall: 14 * time.Minute}
	}
	return runner.Budget{Plans: 8000, PlansPerProc: 60, Wall: 30 * time.Second}
}

func (c17) Describe() runner.Description {
	return runner.Description{
		Rule:        "8% chain-level plans: a booted node with its write handler receives 0-3 gateway transactions (verified, PRE-EXECUTED on the node's shared latest-state object, sent to the pool), 1-4 nonce-checked transactions at nonce offsets 0..3 from the canonical state nonce are added to the pool, then the node proposes (CastBlock), inserts its proposal and proposes again, 1-3 rounds as ONE task of the seeded scheduler with 0-3 allowed preemptions (a goroutine the chain starts while inserting a block may still be pending at the next proposal); what each proposal packed (its transactions + evicted list) must contain no duplicate, nothing executed in a canonical block, and no nonce-checked transaction ahead of the sender's next expected nonce counted from the canonical state of the head. Other plans: 10..150 operations on a real TxPool over <=5 senders with nonce-checked and request-id transactions (nonces in sequence, repeated, ahead by 1-3 or by more than 2^63; some plans with >200 pending): AddTransaction (fresh, duplicate, already executed, evicted), PackForCast against a state whose nonces the plan sets (0..3, or above 2^63 so that pending nonces more than 2^63 apart are all packed), MarkExecuted (receipts + evictions), UnMarkExecuted (reorg), GetTransaction / IsExisted / GetExecuted, simulated firings of the pending-cycle ticker (expiry), restart of the node over the same disk. Reference = sequential pool (pending in insertion order with age, executed map, evicted set). After every op: membership lookups agree; a pack has no duplicates, <=200 entries, no executed hash, each sender's nonce-checked transactions in ascending nonce order and none ahead of state nonce + that sender's already placed in-sequence transactions, and (pending <=200) contains every eligible pending transaction; after unmark the block's transactions are pending and packable again; after re-mark they are not; executed records survive a restart. distinct_nontrivial = distinct op-kind sequences containing mark and unmark.",
		Assumptions: []string{"the pending pool is memory-only by design: a restart empties it (model follows)", "the per-block limit (200) is the property text's 'per-block limit'"},
		Real:        []string{"service/transaction_pool.go", "service/simple_container.go (gmap list map, ring ageing)", "goleveldb executed store over simulated storage", "types transaction codec (executed records)"},
		Stub:        []string{"chain (the harness plays it: builds headers/receipts)", "ConsensusHelper", "network"},
		FaultKinds:  []string{"restart", "ticker_fire", "reorg_unmark", "duplicate_add", "task_switch", "executed_and_evicted_same_tx", "chain_level_pack", "gateway_tx_pre_executed_on_latest_state"},
	}
}

func (c17) Gen(seed uint64, tier string) json.RawMessage {
	r := simrt.NewRand(seed)
	if r.Chance(0.4) {
		b, _ := json.Marshal(struct {
			Mode string   `json:"mode"`
			Conc c17cPlan `json:"conc"`
		}{"conc", c17cGen(r, seed)})
		return b
	}
	if r.Chance(0.08) {
		b, _ := json.Marshal(struct {
			Mode  string       `json:"mode"`
			Chain c17ChainPlan `json:"chain"`
		}{"chain", c17ChainGen(r, seed)})
		return b
	}
	p := c17Plan{Seed: seed}
	ntx := r.Range(4, 14)
	big := r.Chance(0.06)
	if big {
		ntx = r.Range(205, 260)
	}
	next := map[int]uint64{}
	bigPayloads := !big && r.Chance(0.2)
	for i := 0; i < ntx; i++ {
		t := c17Tx{Sender: r.Intn(5)}
		if bigPayloads && r.Chance(0.6) {
			t.Big = r.Range(30, 70)
		}
		if r.Chance(0.25) {
			t.ReqID = uint64(r.Range(1, 50))
		}
		switch r.Intn(8) {
		case 0:
			t.Nonce = next[t.Sender] + uint64(r.Range(1, 3)) // ahead
			if (seed^uint64(i)*0x9e3779b97f4a7c15)>>62 == 0 {
				t.Nonce += 1 << 63 // far ahead: more than 2^63 from the sender's other nonces (a subtraction-based comparator wraps)
			}
		case 1:
			if next[t.Sender] > 0 {
				t.Nonce = next[t.Sender] - 1 // repeated
			}
		default:
			t.Nonce = next[t.Sender]
			next[t.Sender]++
		}
		p.Txs = append(p.Txs, t)
	}
	nops := r.Range(10, 40)
	if r.Chance(0.2) {
		nops = r.Range(41, 150)
	}
	if big {
		p.Ops = append(p.Ops, c17Op{K: "addmany", N: ntx})
	}
	blk := 0
	for i := 0; i < nops; i++ {
		switch x := r.Intn(100); {
		case x < 35:
			p.Ops = append(p.Ops, c17Op{K: "add", T: r.Intn(ntx)})
		case x < 50:
			p.Ops = append(p.Ops, c17Op{K: "pack", S: r.Intn(3)})
			if (seed^uint64(len(p.Ops))*0x9e3779b97f4a7c15)>>61 == 0 {
				p.Ops[len(p.Ops)-1].S = 3 // every sender's state nonce above 2^63: all pending nonces are 'too low' and are packed, so their order shows
			}
		case x < 65:
			blk++
			p.Ops = append(p.Ops, c17Op{K: "mark", B: blk, N: r.Range(0, 6), E: r.Intn(3)})
		case x < 77:
			if blk > 0 {
				p.Ops = append(p.Ops, c17Op{K: "unmark", B: r.Range(1, blk)})
			}
		case x < 90:
			p.Ops = append(p.Ops, c17Op{K: "get", T: r.Intn(ntx)})
		case x < 96:
			p.Ops = append(p.Ops, c17Op{K: "tick"})
		default:
			p.Ops = append(p.Ops, c17Op{K: "restart"})
		}
	}
	b, _ := json.Marshal(p)
	return b
}

type c17Model struct {
	pending  []common.Hash // insertion order
	age      map[common.Hash]int
	executed map[common.Hash]common.Hash // tx -> block
}

func (m *c17Model) isPending(h common.Hash) bool { _, ok := m.age[h]; return ok }

func (m *c17Model) removePending(h common.Hash) {
	if !m.isPending(h) {
		return
	}
	delete(m.age, h)
	for i, x := range m.pending {
		if x == h {
			m.pending = append(m.pending[:i], m.pending[i+1:]...)
			break
		}
	}
}

func (m *c17Model) add(h common.Hash) bool {
	if m.isPending(h) {
		return false
	}
	if _, ok := m.executed[h]; ok {
		return false
	}
	m.pending = append(m.pending, h)
	m.age[h] = 0
	return true
}

const c17PerBlock = 200 // "the per-block limit of transactions"

type c17Wrap struct {
	Mode  string       `json:"mode"`
	Conc  c17cPlan     `json:"conc"`
	Chain c17ChainPlan `json:"chain"`
}

func (c17) Exec(raw json.RawMessage, st *simrt.Stats, log *simrt.Log) *simrt.Violation {
	var w c17Wrap
	if json.Unmarshal(raw, &w) == nil && w.Mode == "conc" {
		return c17cExec(w.Conc, st, log)
	}
	if w.Mode == "chain" {
		return c17ChainExec(w.Chain, st, log)
	}
	var p c17Plan
	if err := json.Unmarshal(raw, &p); err != nil {
		panic(runner.InfraError{Msg: "bad plan: " + err.Error()})
	}
	simmap.Seed = simrt.Mix(p.Seed, 0x6d6170) | 1
	disk := simdisk.NewDisk()
	n := node.Boot(disk, node.ForksLatestSync, false)
	common.SetBlockHeight(5)
	pool := n.Pool.(*service.TxPool)
	viol := func(ev int, clause, where, f string, a ...interface{}) *simrt.Violation {
		return simrt.Violationf("C17", clause, where, ev, f, a...)
	}
	// transactions (unique)
	var txs []*types.Transaction
	byHash := map[common.Hash]int{}
	for i, t := range p.Txs {
		data := ""
		if t.Big > 0 {
			data = strings.Repeat("d", t.Big*1024)
		}
		tx := node.RawTx(types.TransactionTypeOperatorEvent, node.Account(t.Sender), "", t.Nonce, data, "", fmt.Sprintf("p%d", i))
		tx.RequestId = t.ReqID
		txs = append(txs, tx)
		byHash[tx.Hash] = i
	}
	m := &c17Model{age: map[common.Hash]int{}, executed: map[common.Hash]common.Hash{}}
	blocks := map[int]*types.Block{}
	stateFor := func(variant int) (*account.AccountDB, map[string]uint64) {
		s, err := middleware.AccountDBManagerInstance.GetAccountDBByHash(n.Chain.TopBlock().StateTree)
		if err != nil {
			panic(runner.InfraError{Msg: err.Error()})
		}
		nonces := map[string]uint64{}
		for i := 0; i < 5; i++ {
			v := uint64(0)
			if variant == 1 {
				v = uint64(i % 3)
			} else if variant == 2 {
				v = uint64((i*7 + 1) % 4)
			} else if variant == 3 {
				v = 1<<63 + 64
			}
			s.SetNonce(common.HexToAddress(node.Account(i)), v)
			nonces[node.Account(i)] = v
		}
		return s, nonces
	}
	checkMembership := func(ev int, where string) *simrt.Violation {
		for i, tx := range txs {
			h := tx.Hash
			_, ex := m.executed[h]
			want := m.isPending(h) || ex
			if got := pool.IsExisted(h); got != want {
				return viol(ev, "membership-wrong", where, "IsExisted(tx %d) = %v, model pending=%v executed=%v", i, got, m.isPending(h), ex)
			}
			if e := pool.GetExecuted(h); (e != nil) != ex {
				return viol(ev, "executed-record-wrong", where, "GetExecuted(tx %d) present=%v, model executed=%v", i, e != nil, ex)
			} else if e != nil && e.Receipt.BlockHash != m.executed[h] {
				return viol(ev, "executed-record-wrong", where, "GetExecuted(tx %d) names block %x, model %x", i, e.Receipt.BlockHash.Bytes()[:4], m.executed[h].Bytes()[:4])
			}
			got, _ := pool.GetTransaction(h)
			if (got != nil) != want {
				return viol(ev, "membership-wrong", where, "GetTransaction(tx %d) found=%v, model pending=%v executed=%v", i, got != nil, m.isPending(h), ex)
			}
			if got != nil && got.Hash != h {
				return viol(ev, "lookup-returns-other-tx", where, "GetTransaction(tx %d) returned a transaction with another hash", i)
			}
		}
		if pool.SimPendingLen() != len(m.pending) {
			return viol(ev, "pending-size-wrong", where, "pending container holds %d, model %d", pool.SimPendingLen(), len(m.pending))
		}
		if pool.SimRingLen() != len(m.pending) {
			return viol(ev, "ring-map-disagrees", where, "ageing map holds %d entries, pending container %d", pool.SimRingLen(), len(m.pending))
		}
		return nil
	}
	kinds := ""
	hasMark, hasUnmark := false, false
	for i, op := range p.Ops {
		st.Ops++
		log.Add("%d %s t=%d b=%d n=%d e=%d s=%d", i, op.K, op.T, op.B, op.N, op.E, op.S)
		switch op.K {
		case "addmany":
			for j := 0; j < op.N && j < len(txs); j++ {
				ok, _ := pool.AddTransaction(txs[j])
				if ok != m.add(txs[j].Hash) {
					return viol(i, "add-result-wrong", "addmany", "AddTransaction(tx %d) = %v", j, ok)
				}
			}
		case "add":
			tx := txs[op.T%len(txs)]
			c := *tx
			ok, err := pool.AddTransaction(&c)
			want := m.add(tx.Hash)
			if !want {
				st.Fault("duplicate_add")
			}
			if ok != want {
				_, ex := m.executed[tx.Hash]
				where := "fresh"
				if ex {
					where = "already-executed"
				} else if !want {
					where = "already-pending"
				}
				return viol(i, "add-result-wrong", where, "AddTransaction(tx %d) = %v,%v; reference pool says %v", op.T, ok, err, want)
			}
		case "pack":
			state, nonces := stateFor(op.S)
			packed := pool.PackForCast(6, state)
			if len(packed) > c17PerBlock {
				return viol(i, "pack-over-limit", "pack", "packed %d transactions", len(packed))
			}
			seen := map[common.Hash]bool{}
			lastNonce := map[string]uint64{}
			hasLast := map[string]bool{}
			placed := map[string]uint64{}
			for _, t := range packed {
				if seen[t.Hash] {
					return viol(i, "pack-duplicate", "pack", "transaction %x packed twice", t.Hash.Bytes()[:4])
				}
				seen[t.Hash] = true
				if _, ex := m.executed[t.Hash]; ex {
					return viol(i, "executed-tx-packed-again", "pack", "transaction %d is executed on the chain and was packed again", byHash[t.Hash])
				}
				if !m.isPending(t.Hash) {
					return viol(i, "pack-contains-unknown", "pack", "packed transaction %x is not pending", t.Hash.Bytes()[:4])
				}
				if t.RequestId == 0 {
					if hasLast[t.Source] && t.Nonce < lastNonce[t.Source] {
						return viol(i, "pack-nonce-order", "pack", "sender %s: nonce %d packed after nonce %d", t.Source[:8], t.Nonce, lastNonce[t.Source])
					}
					lastNonce[t.Source], hasLast[t.Source] = t.Nonce, true
					exp := nonces[t.Source] + placed[t.Source]
					if t.Nonce > exp {
						return viol(i, "pack-nonce-ahead", "pack", "sender %s: nonce %d packed but the next expected nonce is %d (state %d + %d placed)", t.Source[:8], t.Nonce, exp, nonces[t.Source], placed[t.Source])
					}
					if t.Nonce == exp {
						placed[t.Source]++
					}
				}
			}
			if len(m.pending) <= c17PerBlock {
				// completeness: every eligible pending transaction is offered
				bySender := map[string][]*types.Transaction{}
				for _, h := range m.pending {
					t := txs[byHash[h]]
					if t.RequestId != 0 {
						if !seen[h] {
							return viol(i, "pending-tx-not-packable", "request-id", "pending request-id transaction %d was not packed", byHash[h])
						}
						continue
					}
					bySender[t.Source] = append(bySender[t.Source], t)
				}
				for src, l := range bySender {
					sort.Slice(l, func(a, b int) bool { return l[a].Nonce < l[b].Nonce })
					exp := nonces[src]
					for _, t := range l {
						if t.Nonce > exp {
							continue
						}
						if !seen[t.Hash] {
							return viol(i, "pending-tx-not-packable", "nonce-eligible", "pending transaction %d (sender %s nonce %d, expected %d) was not packed", byHash[t.Hash], src[:8], t.Nonce, exp)
						}
						if t.Nonce == exp {
							exp++
						}
					}
				}
			}
		case "mark":
			if len(m.pending) == 0 && op.N > 0 {
				continue
			}
			nexec := op.N
			if nexec > len(m.pending) {
				nexec = len(m.pending)
			}
			nev := op.E
			overlap := false
			if nev == 2 {
				// the representation of a failed execution before Proposal018: the transaction is in the block's
				// transaction list (with a receipt) AND in its evicted list
				nev, overlap = 0, nexec > 0
			}
			if nexec+nev > len(m.pending) {
				nev = len(m.pending) - nexec
			}
			hdr := &types.BlockHeader{Height: uint64(10 + op.B), CurTime: node.EpochTime}
			hdr.Hash = common.BytesToHash([]byte(fmt.Sprintf("block-%d-%d", op.B, i)))
			var btx []*types.Transaction
			var rcs types.Receipts
			for _, h := range m.pending[:nexec] {
				t := txs[byHash[h]]
				btx = append(btx, t)
				rc := types.NewReceipt(nil, false, 0, hdr.Height, "", t.Source, "")
				rc.TxHash = h
				// receipts as contract transactions leave them: logs with 0..1 topics (LOG0: an empty, non-nil topic list,
				// as the EVM's makeLog builds it), result text, failed status
				switch byHash[h] % 4 {
				case 1:
					rc.Logs = []*types.Log{{Address: common.HexToAddress(node.Account(1)), Topics: []common.Hash{}, Data: []byte{1, 2, 3}, TxHash: h}}
				case 2:
					rc.Logs = []*types.Log{{Address: common.HexToAddress(node.Account(2)), Topics: []common.Hash{common.BytesToHash([]byte{7})}, Data: nil, TxHash: h},
						{Address: common.HexToAddress(node.Account(3)), Topics: []common.Hash{}, Data: []byte{9}, TxHash: h}}
					rc.Result = "0x01"
				case 3:
					rc.Status = types.ReceiptStatusFailed
					rc.Msg = "execution reverted"
				}
				rcs = append(rcs, rc)
			}
			var evicted []common.Hash
			for _, h := range m.pending[nexec : nexec+nev] {
				evicted = append(evicted, h)
			}
			if overlap {
				evicted = append(evicted, btx[0].Hash)
				st.Fault("executed_and_evicted_same_tx")
			}
			hdr.EvictedTxs = evicted
			pool.MarkExecuted(hdr, rcs, btx, evicted)
			for _, t := range btx {
				m.executed[t.Hash] = hdr.Hash
				m.removePending(t.Hash)
			}
			for _, h := range evicted {
				m.removePending(h)
			}
			_ = overlap
			blocks[op.B] = &types.Block{Header: hdr, Transactions: btx}
			hasMark = true
		case "unmark":
			b := blocks[op.B]
			if b == nil {
				continue
			}
			pool.UnMarkExecuted(b)
			st.Fault("reorg_unmark")
			for _, t := range b.Transactions {
				if m.executed[t.Hash] == b.Header.Hash {
					delete(m.executed, t.Hash)
				}
				m.add(t.Hash)
			}
			delete(blocks, op.B)
			hasUnmark = len(b.Transactions) > 0 || hasUnmark
			// the block's transactions are pending again and packable
			for _, t := range b.Transactions {
				if !pool.IsExisted(t.Hash) || pool.GetExecuted(t.Hash) != nil {
					return viol(i, "unmarked-tx-not-pending", "unmark", "transaction %d of the removed block is not pending again", byHash[t.Hash])
				}
			}
		case "get":
			// membership of every transaction is checked below after each op
		case "tick":
			pool.SimTick()
			st.Fault("ticker_fire")
			var expired []common.Hash
			for _, h := range m.pending {
				m.age[h]++
				if m.age[h] >= 5 {
					expired = append(expired, h)
				}
			}
			for _, h := range expired {
				m.removePending(h)
			}
		case "restart":
			n = node.Boot(disk, node.ForksLatestSync, false)
			common.SetBlockHeight(5)
			pool = n.Pool.(*service.TxPool)
			st.Fault("restart")
			m.pending = nil
			m.age = map[common.Hash]int{}
		}
		kinds += op.K[:1]
		if v := checkMembership(i, "after-"+op.K); v != nil {
			return v
		}
		st.Evaluations++
	}
	st.State(simrt.HashString(kinds))
	if hasMark && hasUnmark {
		st.Nontrivial(simrt.HashString(kinds))
	}
	return nil
}

func (c17) Shrink(raw json.RawMessage) []json.RawMessage {
	var w c17Wrap
	if json.Unmarshal(raw, &w) == nil && w.Mode == "conc" {
		return c17cShrink(w.Conc)
	}
	var p c17Plan
	json.Unmarshal(raw, &p)
	var out []json.RawMessage
	for chunk := len(p.Ops) / 2; chunk >= 1; chunk /= 2 {
		for s := 0; s+chunk <= len(p.Ops); s += chunk {
			q := p
			q.Ops = append(append([]c17Op{}, p.Ops[:s]...), p.Ops[s+chunk:]...)
			b, _ := json.Marshal(q)
			out = append(out, b)
		}
	}
	return out
}
