package harness

import (
	"encoding/hex"
	"encoding/json"
	"fmt"
	"math/big"
	"sort"
	"strings"
	"time"

	"com.tuntun.rangers/node/src/common"
	"com.tuntun.rangers/node/src/middleware/types"
	"com.tuntun.rangers/node/src/storage/account"
	"com.tuntun.rangers/node/src/storage/trie"
	"com.tuntun.rangers/node/src/zzverif/node"
	"com.tuntun.rangers/node/src/zzverif/runner"
	"com.tuntun.rangers/node/src/zzverif/simdisk"
	"com.tuntun.rangers/node/src/zzverif/simmap"
	"com.tuntun.rangers/node/src/zzverif/simrt"
)

// C04 — reverting to a snapshot restores the account state exactly.
//
// Simulated system: the real AccountDB (journal, account objects, tries) on the
// simulated disk, opened on a committed seeded base state. Plan = history of
// mutators, snapshots, nested reverts, cache-warming reads, transaction
// boundaries (Prepare), finalise, commit + warm/cold reopen.
// Oracles: (i) observation oracle: every accessor named in the statement, over a
// closed universe, is recorded when a snapshot is taken and must answer
// identically right after the revert; (ii) twin run: the same history with every
// reverted segment removed, on a second AccountDB from the same base, must give the
// same IntermediateRoot and Commit root; a difference is classified leaf by leaf.

type c04Op struct {
	K string `json:"k"`
	A int    `json:"a,omitempty"` // address index
	S int    `json:"s,omitempty"` // slot index / snapshot depth
	V string `json:"v,omitempty"` // hex value / amount (decimal)
	N uint64 `json:"n,omitempty"`
}

type c04Plan struct {
	Seed uint64  `json:"seed"`
	Base []c04Op `json:"base"` // mutators applied and committed before the history starts
	Cold bool    `json:"cold"` // history starts on a cold database (reopen from disk)
	Ops  []c04Op `json:"ops"`
	// Pre: mutators both runs apply BEFORE the history, while the chain height is still below the
	// Proposal002 fork height (balance writes not journalled there); the history itself - every
	// snapshot and revert - runs above it. Empty: the whole plan runs above the fork height.
	Pre []c04Op `json:"pre,omitempty"`
	// NoBind: the base state has no native-token binding (balances then live in the storage of the zero
	// address); the history contains snapshot / AddERC20Binding(native) / revert triples with no call
	// in between. The binding is also cached per process, outside the journal.
	NoBind bool `json:"nobind,omitempty"`
}

type c04 struct{}

func init() { runner.Register(c04{}) }

func (c04) ID() string    { return "C04" }
func (c04) Level() string { return "exploration" }

func (c04) Budget(tier string) runner.Budget {
	if tier == "thorough" {
		return runner.Budget{Plans: 300000, PlansPerProc: 2000, Wall: 12 * time.Minute}
	}
	return runner.Budget{Plans: 64000, PlansPerProc: 1000, Wall: 45 * time.Second}
}

func (c04) Describe() runner.Description {
	return runner.Description{
		Rule:        "each case is one seeded history (5..120 calls, swarm-varied mix) on the real AccountDB over a committed seeded base state: every mutator (balance add/sub/set, nonce set/increase, storage set/remove, SetState, SetStorage (several slots by one call), SetCode, CreateAccount, Suicide, AddLog, Add/SubRefund, SetTransientState, access-list address/slot, FT add/sub/set), Snapshot/RevertToSnapshot nested to depth 8, cache-warming reads, Prepare, IntermediateRoot, Commit + warm/cold reopen. Balance values include uint256 boundary values (a balance slot is a storage slot of the token contract). In 5% of the cases the base state has no native-token binding and the history binds it inside snapshots that are reverted at once (the binding is also cached per process, outside the journal). In 12% of the cases the instance's life crosses a fork height: a preamble of mutators runs below Proposal002's height (balance writes not journalled), the history - every snapshot and revert - above it. Oracles: observation vector (balance, nonce, slots, code, code hash, existence, suicided flag, refund, logs, access list, transient storage over a closed universe) recorded at each snapshot must be identical right after its revert; twin run without the reverted segments must give the same intermediate and committed root. distinct_nontrivial = distinct (op-kind sequence inside reverted segments) fingerprints of histories with at least one revert that undid >=2 mutators.",
		Assumptions: []string{"the observation universe (6 addresses x 4 slots x 2 FT names) is closed under the generated operations", "Prepare/Finalise/Commit are only issued with no open snapshot, as the block executor does"},
		Real:        []string{"storage/account (AccountDB, journal, account objects, access list, transient storage)", "storage/trie", "storage/rlp"},
		Stub:        []string{"disk: simdisk.KV"},
		FaultKinds:  []string{"cold_reopen", "warm_reopen", "revert", "nested_revert", "fork_height_crossed_during_instance_life", "native_binding_inside_reverted_snapshot"},
	}
}

var c04Addrs = []common.Address{
	common.HexToAddress("0x1111111111111111111111111111111111111111"),
	common.HexToAddress("0x2222222222222222222222222222222222222222"),
	common.HexToAddress("0x3333333333333333333333333333333333333333"),
	common.HexToAddress("0x4444444444444444444444444444444444444444"),
	common.HexToAddress("0x5555555555555555555555555555555555555555"),
	common.HexToAddress("0x0000000000000000000000000000000000000003"), // ripemd special-cased by touchChange
}

// the contract whose storage holds native balances (as createGenesisContract binds it)
var c04TokenContract = common.HexToAddress("0x71d9cfd1b7adb1e8eb4c193ce6ffbe19b4aee0db")

var c04AltToken = common.HexToAddress("0x9c1cbfe5328dfb1733d59a7652d0a49228c7e12c")

var c04Slots = [][]byte{
	common.HexToHash("0x01").Bytes(),
	common.HexToHash("0xa1b2").Bytes(),
	[]byte("k"),
	[]byte("key-long-0123456789"),
}

var c04FT = []string{"SYS-ft1", "ft2"}

var c04Mutators = []string{"setstorage", "addbal", "subbal", "setbal", "setnonce", "incnonce", "setdata", "rmdata", "setstate", "setcode", "create", "suicide", "addlog", "addrefund", "subrefund", "tstore", "aladdr", "alslot", "addft", "subft", "setft", "transfer"}

func c04GenMutator(r *simrt.Rand, uniq int) c04Op {
	k := c04Mutators[r.Intn(len(c04Mutators))]
	op := c04Op{K: k, A: r.Intn(len(c04Addrs)), S: r.Intn(len(c04Slots))}
	switch k {
	case "addbal", "subbal", "setbal", "addft", "subft", "setft", "transfer":
		switch r.Intn(6) {
		case 0:
			op.V = "0"
		case 1:
			op.V = fmt.Sprintf("%d", r.Range(1, 1000))
		case 2:
			op.V = fmt.Sprintf("%d000000000000000000", r.Range(1, 99))
		case 3:
			if k == "setbal" {
				// a balance slot is a storage slot of the token contract: any uint256 can be in it
				v := new(big.Int).SetBytes(r.Bytes(32))
				switch r.Intn(4) {
				case 0:
					v.SetBit(v, 255, 1)
				case 1:
					v.SetBit(v, 255, 0).SetBit(v, 254, 1)
				case 2:
					v.Sub(new(big.Int).Lsh(big.NewInt(1), 256), big.NewInt(int64(r.Range(1, 40))))
				}
				op.V = v.String()
				break
			}
			fallthrough
		default:
			op.V = fmt.Sprintf("%d", r.U64()%1000000000000)
		}
		op.N = uint64(r.Intn(len(c04Addrs))) // transfer target / ft name index
	case "setnonce", "addrefund", "subrefund":
		op.N = uint64(r.Range(0, 5))
	case "setdata", "setstate", "tstore":
		v := r.Bytes(r.Range(1, 40))
		v[0] = byte(uniq) | 1
		if k != "setdata" {
			v = common.BytesToHash(v).Bytes()
		}
		if r.Chance(0.1) {
			v = nil
		}
		op.V = hex.EncodeToString(v)
	case "setstorage":
		op.N = uint64(r.Range(1, 15)) // bit mask over the 4 slots
		op.V = hex.EncodeToString(r.Bytes(4))
	case "setcode":
		c := r.Bytes(r.Range(1, 60))
		c[0] = byte(uniq)
		op.V = hex.EncodeToString(c)
	}
	return op
}

func (c04) Gen(seed uint64, tier string) json.RawMessage {
	r := simrt.NewRand(seed)
	p := c04Plan{Seed: seed, Cold: r.Chance(0.5)}
	nb := r.Range(0, 14)
	for i := 0; i < nb; i++ {
		op := c04GenMutator(r, i+1)
		switch op.K {
		case "addlog", "addrefund", "subrefund", "tstore", "aladdr", "alslot":
			continue
		}
		p.Base = append(p.Base, op)
	}
	if r.Chance(0.12) {
		for i, c := 0, r.Range(1, 5); i < c; i++ {
			op := c04GenMutator(r, i+50)
			switch op.K {
			case "addlog", "addrefund", "subrefund", "tstore", "aladdr", "alslot":
				continue
			}
			if r.Chance(0.6) {
				op.K = []string{"addbal", "subbal", "addft", "subft", "transfer"}[r.Intn(5)] // the calls the fork switch is about
			}
			p.Pre = append(p.Pre, op)
		}
	}
	n := r.Range(5, 25)
	if r.Chance(0.3) {
		n = r.Range(26, 120)
	}
	pSnap := 0.08 + r.Float()*0.2
	pRevert := 0.05 + r.Float()*0.2
	pRead := r.Float() * 0.15
	pTop := r.Float() * 0.08
	depth := 0
	p.NoBind = r.Chance(0.05)
	for i := 0; i < n; i++ {
		x := r.Float()
		switch {
		case p.NoBind && x > 0.9 && depth < 8:
			p.Ops = append(p.Ops, c04Op{K: "snap"}, c04Op{K: "bind"}, c04Op{K: "revert", S: depth})
		case x < pSnap && depth < 8:
			p.Ops = append(p.Ops, c04Op{K: "snap"})
			depth++
		case x < pSnap+pRevert && depth > 0:
			d := r.Intn(depth) // revert to the snapshot at this depth (0 = outermost open)
			p.Ops = append(p.Ops, c04Op{K: "revert", S: d})
			depth = d
		case x < pSnap+pRevert+pRead:
			p.Ops = append(p.Ops, c04Op{K: "read", A: r.Intn(len(c04Addrs)), S: r.Intn(len(c04Slots))})
		case x < pSnap+pRevert+pRead+pTop && depth == 0:
			p.Ops = append(p.Ops, c04Op{K: []string{"prepare", "commit-warm", "commit-cold"}[r.Intn(3)], N: uint64(i + 1)})
		default:
			p.Ops = append(p.Ops, c04GenMutator(r, i+100))
		}
	}
	b, _ := json.Marshal(p)
	return b
}

// ---------------------------------------------------------------------------

type c04Run struct {
	kv    *simdisk.KV
	adb   account.AccountDatabase
	st    *account.AccountDB
	thash common.Hash
	stack []int // open snapshot ids
}

func c04Amount(s string) *big.Int {
	v, ok := new(big.Int).SetString(s, 10)
	if !ok {
		return big.NewInt(0)
	}
	return v
}

// apply executes one mutator/read/top-level op on the run's AccountDB.
func (ru *c04Run) apply(op c04Op) {
	st := ru.st
	a := c04Addrs[op.A%len(c04Addrs)]
	slot := c04Slots[op.S%len(c04Slots)]
	val, _ := hex.DecodeString(op.V)
	switch op.K {
	case "addbal":
		st.AddBalance(a, c04Amount(op.V))
	case "subbal":
		st.SubBalance(a, c04Amount(op.V))
	case "setbal":
		st.SetBalance(a, c04Amount(op.V))
	case "transfer":
		b := c04Addrs[int(op.N)%len(c04Addrs)]
		if st.CanTransfer(a, c04Amount(op.V)) {
			st.Transfer(a, b, c04Amount(op.V))
		}
	case "setnonce":
		st.SetNonce(a, op.N)
	case "incnonce":
		st.IncreaseNonce(a)
	case "setdata":
		if len(val) == 0 {
			val = nil
		}
		st.SetData(a, slot, val)
	case "rmdata":
		st.RemoveData(a, slot)
	case "setstate":
		st.SetState(a, common.BytesToHash(slot), common.BytesToHash(val))
	case "setstorage":
		// several slots of one account written by one call (the state-override entry point)
		m := map[common.Hash]common.Hash{}
		for j := range c04Slots {
			if op.N&(1<<uint(j)) != 0 {
				v := common.Hash{}
				if len(val) > j {
					v = common.BytesToHash([]byte{val[j] | 1, byte(j)})
				}
				m[common.BytesToHash(c04Slots[j])] = v
			}
		}
		st.SetStorage(a, m)
	case "setcode":
		st.SetCode(a, val)
	case "create":
		st.CreateAccount(a)
	case "suicide":
		st.Suicide(a)
	case "bind":
		st.AddERC20Binding(common.BLANCE_NAME, c04AltToken, 3, 18)
	case "addlog":
		st.AddLog(&types.Log{Address: a, Data: []byte{byte(op.S)}})
	case "addrefund":
		st.AddRefund(op.N)
	case "subrefund":
		if st.GetRefund() >= op.N {
			st.SubRefund(op.N)
		}
	case "tstore":
		st.SetTransientState(a, common.BytesToHash(slot), common.BytesToHash(val))
	case "aladdr":
		st.AddAddressToAccessList(a)
	case "alslot":
		st.AddSlotToAccessList(a, common.BytesToHash(slot))
	case "addft":
		st.AddFT(a, c04FT[int(op.N)%len(c04FT)], c04Amount(op.V))
	case "subft":
		st.SubFT(a, c04FT[int(op.N)%len(c04FT)], c04Amount(op.V))
	case "setft":
		st.SetFT(a, c04FT[int(op.N)%len(c04FT)], c04Amount(op.V))
	case "read":
		st.GetBalance(a)
		st.GetData(a, slot)
		st.GetCode(a)
		st.GetNonce(a)
	case "prepare":
		ru.thash = common.BytesToHash([]byte{byte(op.N), byte(op.N >> 8), 7})
		st.Prepare(ru.thash, common.Hash{}, int(op.N))
	case "finalise":
		st.IntermediateRoot(true)
	}
}

// observe returns the statement's query vector over the closed universe.
func (ru *c04Run) observe() []string {
	st := ru.st
	var o []string
	for i, a := range c04Addrs {
		o = append(o, fmt.Sprintf("a%d.exist=%v", i, st.Exist(a)))
		o = append(o, fmt.Sprintf("a%d.balance=%s", i, st.GetBalance(a).String()))
		o = append(o, fmt.Sprintf("a%d.nonce=%d", i, st.GetNonce(a)))
		o = append(o, fmt.Sprintf("a%d.code=%x", i, st.GetCode(a)))
		o = append(o, fmt.Sprintf("a%d.codehash=%x", i, st.GetCodeHash(a).Bytes()))
		o = append(o, fmt.Sprintf("a%d.suicided=%v", i, st.HasSuicided(a)))
		for j, s := range c04Slots {
			o = append(o, fmt.Sprintf("a%d.slot%d=%x", i, j, st.GetData(a, s)))
			o = append(o, fmt.Sprintf("a%d.state%d=%x", i, j, st.GetState(a, common.BytesToHash(s)).Bytes()))
			o = append(o, fmt.Sprintf("a%d.tslot%d=%x", i, j, st.GetTransientState(a, common.BytesToHash(s)).Bytes()))
			ap, sp := st.SlotInAccessList(a, common.BytesToHash(s))
			o = append(o, fmt.Sprintf("a%d.al%d=%v/%v", i, j, ap, sp))
		}
		o = append(o, fmt.Sprintf("a%d.inal=%v", i, st.AddressInAccessList(a)))
		for j, f := range c04FT {
			// GetFT creates an (empty) account object when none exists; only ask for
			// existing accounts so that observing does not itself populate the state
			v := "0"
			if st.Exist(a) {
				v = st.GetFT(a, f).String()
			}
			o = append(o, fmt.Sprintf("a%d.ft%d=%s", i, j, v))
		}
	}
	o = append(o, fmt.Sprintf("refund=%d", st.GetRefund()))
	logs := st.GetLogs(ru.thash)
	ls := make([]string, 0, len(logs))
	for _, l := range logs {
		ls = append(ls, fmt.Sprintf("%x:%x:%d", l.Address.Bytes(), l.Data, l.Index))
	}
	o = append(o, "logs="+strings.Join(ls, ","))
	return o
}

func c04Open(kv *simdisk.KV, root common.Hash, adb account.AccountDatabase) (*c04Run, error) {
	if adb == nil {
		adb = account.NewDatabase(kv)
	}
	st, err := account.NewAccountDB(root, adb)
	if err != nil {
		return nil, err
	}
	return &c04Run{kv: kv, adb: adb, st: st}, nil
}

// commitReopen commits like blockChain.saveStates does and reopens warm or cold.
func (ru *c04Run) commitReopen(cold bool) (common.Hash, error) {
	root, err := ru.st.Commit(true)
	if err != nil {
		return root, err
	}
	if err := ru.adb.TrieDB().Commit(root, false); err != nil {
		return root, err
	}
	adb := ru.adb
	if cold {
		adb = account.NewDatabase(ru.kv)
	}
	st, err := account.NewAccountDB(root, adb)
	if err != nil {
		return root, err
	}
	ru.adb, ru.st = adb, st
	return root, nil
}

func c04Field(o string) (addr, field string) {
	f := o
	if j := strings.Index(f, "="); j > 0 {
		f = f[:j]
	}
	if j := strings.Index(f, "."); j > 0 {
		addr, f = f[:j], f[j+1:]
	}
	return addr, strings.TrimRight(f, "0123456789")
}

// c04Diff classifies a root difference by comparing the two committed states leaf by
// leaf over the universe. "empty-account-persisted" = the only differences are accounts
// that exist on one side with every other query at its default, absent on the other.
func c04Diff(kv *simdisk.KV, ra, rb common.Hash, touched map[string]bool) string {
	a, ea := c04Open(kv, ra, nil)
	b, eb := c04Open(kv, rb, nil)
	if ea != nil || eb != nil {
		return "unopenable"
	}
	oa, ob := a.observe(), b.observe()
	existOnly := map[string]bool{}
	other := ""
	allTouched := len(touched) > 0
	for i := range oa {
		if oa[i] != ob[i] {
			ad, f := c04Field(oa[i])
			if !touched[ad] {
				allTouched = false
			}
			if f == "exist" {
				existOnly[ad] = true
			} else if f == "codehash" && existOnly[ad] {
				// an existing account without code reports the empty-code hash, a missing one the zero hash
			} else if other == "" {
				other = f
			}
		}
	}
	if other == "" && len(existOnly) > 0 {
		return "empty-account-persisted"
	}
	if allTouched && other != "" {
		// every differing account had a zero-amount AddFT (the only caller of touch()) inside a reverted segment
		return "write-lost-after-reverted-touch"
	}
	if other != "" {
		return other
	}
	if len(existOnly) > 0 {
		return "empty-account-persisted"
	}
	return "unobserved-leaf:" + c04LeafDiff(kv, ra, rb)
}

// c04LeafDiff walks both account tries and names the first account whose record differs.
func c04LeafDiff(kv *simdisk.KV, ra, rb common.Hash) string {
	leaves := func(root common.Hash) map[string]string {
		m := map[string]string{}
		tr, err := account.NewDatabase(kv).OpenTrie(root)
		if err != nil {
			return m
		}
		it := trie.NewIterator(tr.NodeIterator(nil))
		for it.Next() {
			m[hex.EncodeToString(it.Key)] = hex.EncodeToString(it.Value)
		}
		return m
	}
	la, lb := leaves(ra), leaves(rb)
	var keys []string
	for k := range la {
		keys = append(keys, k)
	}
	for k := range lb {
		if _, ok := la[k]; !ok {
			keys = append(keys, k)
		}
	}
	sort.Strings(keys)
	for _, k := range keys {
		if la[k] != lb[k] {
			kind := "other-account"
			if k == hex.EncodeToString(c04TokenContract.Bytes()) {
				kind = "token-contract"
			}
			for i, a := range c04Addrs {
				if k == hex.EncodeToString(a.Bytes()) {
					kind = fmt.Sprintf("a%d", i)
				}
			}
			return kind
		}
	}
	return "none"
}

func (c04) Exec(raw json.RawMessage, stt *simrt.Stats, log *simrt.Log) *simrt.Violation {
	node.InitProcess()
	common.SetBlockHeight(5)
	var p c04Plan
	if err := json.Unmarshal(raw, &p); err != nil {
		panic(runner.InfraError{Msg: "bad plan: " + err.Error()})
	}
	if len(p.Pre) > 0 {
		// the instance's life crosses a fork height: Proposal002 (journalled balance writes) becomes
		// active between the preamble and the history
		old := common.LocalChainConfig.Proposal002Block
		common.LocalChainConfig.Proposal002Block = 7
		defer func() { common.LocalChainConfig.Proposal002Block = old; common.SetBlockHeight(5) }()
		stt.Fault("fork_height_crossed_during_instance_life")
	}
	simmap.Seed = simrt.Mix(p.Seed, 0x6d6170) | 1 // seeded map iteration order (instrumented build)
	stt.Evaluations++
	viol := func(ev int, clause, where, f string, a ...interface{}) *simrt.Violation {
		return simrt.Violationf("C04", clause, where, ev, f, a...)
	}
	// base state, committed to one disk shared by both runs (history is append-only)
	kv := simdisk.NewKV()
	base, err := c04Open(kv, common.Hash{}, nil)
	if err != nil {
		panic(runner.InfraError{Msg: err.Error()})
	}
	// what every genesis does first: the native-token contract and its binding
	base.st.SetCode(c04TokenContract, []byte{0x60, 0x00, 0x60, 0x00, 0xfd})
	base.st.SetNonce(c04TokenContract, 1)
	account.SimResetProcessCaches()
	if !p.NoBind {
		base.st.AddERC20Binding(common.BLANCE_NAME, c04TokenContract, 3, 18)
	} else {
		// without a binding the balances live in the zero address's storage: make that account an
		// ordinary existing one, as the token contract is
		base.st.SetNonce(common.Address{}, 1)
		stt.Fault("native_binding_inside_reverted_snapshot")
	}
	for _, op := range p.Base {
		base.apply(op)
	}
	baseRoot, err := base.commitReopen(false)
	if err != nil {
		return viol(-1, "commit-error", "base", "base commit: %v", err)
	}
	var sharedDB account.AccountDatabase
	if !p.Cold {
		sharedDB = base.adb
	}
	A, err := c04Open(kv, baseRoot, sharedDB)
	if err != nil {
		return viol(-1, "reopen-failed", "base", "open base root: %v", err)
	}
	B, err := c04Open(kv, baseRoot, nil)
	if err != nil {
		return viol(-1, "reopen-failed", "base", "open base root (twin): %v", err)
	}

	for _, op := range p.Pre {
		A.apply(op)
		B.apply(op)
	}
	if len(p.Pre) > 0 {
		common.SetBlockHeight(9)
	}

	// which ops are inside reverted segments (removed from the twin)?
	removed := make([]bool, len(p.Ops))
	var segs [][2]int // removed intervals [snap index, revert index]
	{
		var open []int
		for i, op := range p.Ops {
			switch op.K {
			case "snap":
				open = append(open, i)
			case "revert":
				if op.S < len(open) {
					for j := open[op.S]; j <= i; j++ {
						removed[j] = true
					}
					segs = append(segs, [2]int{open[op.S], i})
					open = open[:op.S]
				}
			case "prepare", "finalise", "commit-warm", "commit-cold":
				open = nil
			}
		}
	}
	// preSnapOutside: the reads done just before the Snapshot() call of op i are outside
	// every removed segment; postRevertOutside likewise for the reads right after revert i.
	preSnapOutside := func(i int) bool {
		for _, sg := range segs {
			if sg[0] < i && i <= sg[1] {
				return false
			}
		}
		return true
	}
	postRevertOutside := func(i int) bool {
		for _, sg := range segs {
			if sg[0] <= i && i < sg[1] {
				return false
			}
		}
		return true
	}

	// accounts that had a zero-amount AddFT inside a reverted segment
	touched := map[string]bool{}
	for i, op := range p.Ops {
		if removed[i] && op.K == "addft" && c04Amount(op.V).Sign() == 0 {
			touched[fmt.Sprintf("a%d", op.A%len(c04Addrs))] = true
		}
	}
	type snapRec struct {
		id  int
		obs []string
		at  int
	}
	var snaps []snapRec
	var segKinds []string
	revertedMutators := 0
	for i, op := range p.Ops {
		stt.Ops++
		log.Add("%d %s a=%d s=%d v=%s n=%d", i, op.K, op.A, op.S, op.V, op.N)
		switch op.K {
		case "snap":
			A.observe()
			obs := A.observe()
			if preSnapOutside(i) {
				// the pre-snapshot reads are outside every reverted segment: the twin performs them too
				B.observe()
				B.observe()
			}
			id := A.st.Snapshot()
			snaps = append(snaps, snapRec{id: id, obs: obs, at: i})
			if !removed[i] {
				B.st.Snapshot()
			}
		case "revert":
			if op.S >= len(snaps) {
				continue
			}
			rec := snaps[op.S]
			nested := len(snaps)-op.S > 1
			snaps = snaps[:op.S]
			A.st.RevertToSnapshot(rec.id)
			stt.Fault("revert")
			if nested {
				stt.Fault("nested_revert")
			}
			got := A.observe()
			for j := range got {
				if got[j] != rec.obs[j] {
					field := got[j]
					if x := strings.Index(field, "="); x > 0 {
						field = field[:x]
					}
					if x := strings.Index(field, "."); x > 0 {
						field = field[x+1:]
					}
					field = strings.TrimRight(field, "0123456789")
					return viol(i, "revert-not-exact", field, "after RevertToSnapshot (snapshot taken at op %d): %s, at snapshot time: %s", rec.at, got[j], rec.obs[j])
				}
			}
			if postRevertOutside(i) {
				B.observe()
			}
			for j := rec.at; j <= i; j++ {
				for _, m := range c04Mutators {
					if p.Ops[j].K == m {
						revertedMutators++
						segKinds = append(segKinds, m)
					}
				}
			}
		case "commit-warm", "commit-cold":
			snaps = nil
			ra, err := A.commitReopen(op.K == "commit-cold")
			if err != nil {
				return viol(i, "commit-error", "history", "Commit: %v", err)
			}
			rb, err := B.commitReopen(op.K == "commit-cold")
			if err != nil {
				return viol(i, "commit-error", "twin", "Commit (twin): %v", err)
			}
			if op.K == "commit-cold" {
				stt.Fault("cold_reopen")
			} else {
				stt.Fault("warm_reopen")
			}
			if ra != rb {
				return viol(i, "root-differs-from-twin", c04Diff(kv, ra, rb, touched), "committed root %x, twin without the reverted operations %x", ra.Bytes(), rb.Bytes())
			}
		default:
			if op.K == "prepare" || op.K == "finalise" {
				snaps = nil
			}
			A.apply(op)
			if !removed[i] {
				B.apply(op)
			}
		}
	}
	ev := len(p.Ops)
	ia, ib := A.st.IntermediateRoot(true), B.st.IntermediateRoot(true)
	if ia != ib {
		ra, _ := A.commitReopen(false)
		rb, _ := B.commitReopen(false)
		if ra == rb {
			which := "history"
			if ra == ia {
				which = "twin"
			}
			if len(touched) > 0 && which == "history" {
				// same root cause as the lost write: a suicide/write after a reverted touch is not
				// in the dirty set, so Finalise skips it while Commit (which walks all objects) does not
				return viol(ev, "root-differs-from-twin", "write-lost-after-reverted-touch", "IntermediateRoot(true) %x, twin %x; Commit(true) gives %x for both", ia.Bytes(), ib.Bytes(), ra.Bytes())
			}
			return viol(ev, "intermediate-root-differs-from-commit-root", which, "IntermediateRoot(true) %x / twin %x, but Commit(true) gives %x for both", ia.Bytes(), ib.Bytes(), ra.Bytes())
		}
		return viol(ev, "root-differs-from-twin", c04Diff(kv, ra, rb, touched), "IntermediateRoot %x, twin without the reverted operations %x", ia.Bytes(), ib.Bytes())
	}
	ra, err := A.commitReopen(true)
	if err != nil {
		return viol(ev, "commit-error", "history", "final Commit: %v", err)
	}
	rb, err := B.commitReopen(true)
	if err != nil {
		return viol(ev, "commit-error", "twin", "final Commit (twin): %v", err)
	}
	if ra != rb {
		return viol(ev, "root-differs-from-twin", c04Diff(kv, ra, rb, touched), "final committed root %x, twin %x", ra.Bytes(), rb.Bytes())
	}
	// after a cold reopen both must observe the same
	oa, ob := A.observe(), B.observe()
	for j := range oa {
		if oa[j] != ob[j] {
			return viol(ev, "root-differs-from-twin", "observation", "same root but %s vs twin %s", oa[j], ob[j])
		}
	}
	stt.State(simrt.HashString(strings.Join(oa, ";")))
	if revertedMutators >= 2 {
		sort.Strings(segKinds)
		stt.Nontrivial(simrt.HashString(strings.Join(segKinds, ",")) ^ simrt.HashString(strings.Join(oa, ";")))
	}
	return nil
}

func (c04) Shrink(raw json.RawMessage) []json.RawMessage {
	var p c04Plan
	json.Unmarshal(raw, &p)
	var out []json.RawMessage
	emit := func(q c04Plan) {
		b, _ := json.Marshal(q)
		out = append(out, b)
	}
	dropRange := func(ops []c04Op, s, n int) []c04Op {
		return append(append([]c04Op{}, ops[:s]...), ops[s+n:]...)
	}
	for chunk := len(p.Ops) / 2; chunk >= 1; chunk /= 2 {
		for s := 0; s+chunk <= len(p.Ops); s += chunk {
			q := p
			q.Ops = dropRange(p.Ops, s, chunk)
			emit(q)
		}
	}
	for chunk := len(p.Base) / 2; chunk >= 1; chunk /= 2 {
		for s := 0; s+chunk <= len(p.Base); s += chunk {
			q := p
			q.Base = dropRange(p.Base, s, chunk)
			emit(q)
		}
	}
	if p.Cold {
		q := p
		q.Cold = false
		emit(q)
	}
	return out
}
