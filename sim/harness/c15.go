package harness

import (
	"bytes"
	"crypto/sha256"
	"encoding/json"
	"fmt"
	"time"

	"com.tuntun.rangers/node/src/common"
	"com.tuntun.rangers/node/src/consensus/access"
	"com.tuntun.rangers/node/src/consensus/base"
	"com.tuntun.rangers/node/src/consensus/groupsig"
	"com.tuntun.rangers/node/src/consensus/logical"
	"com.tuntun.rangers/node/src/consensus/logical/group_create"
	"com.tuntun.rangers/node/src/consensus/model"
	cnet "com.tuntun.rangers/node/src/consensus/net"
	middleware_pb "com.tuntun.rangers/node/src/middleware/pb"
	"com.tuntun.rangers/node/src/middleware/types"
	"com.tuntun.rangers/node/src/zzverif/node"
	"com.tuntun.rangers/node/src/zzverif/runner"
	"com.tuntun.rangers/node/src/zzverif/simdisk"
	"com.tuntun.rangers/node/src/zzverif/simmap"
	"com.tuntun.rangers/node/src/zzverif/simrt"
	"com.tuntun.rangers/node/src/zzverif/simsched"
	"github.com/golang/protobuf/proto"
)

// C15 — verifiers count only signature shares valid for the block being signed.
//
// Simulated system: one verifier runs the real SignParty (round1 -> round2) for a
// group produced by the node's own DKG code, on a booted real node (chain, pool,
// joined-group storage). The other members are scripted: honest ones send their
// share over the block hash and their beacon share; Byzantine ones send the wire
// messages the statement names. Messages are protobuf bytes decoded by the real
// decoder; arrival order (including before the proposal is accepted) is the plan's.

type c15Msg struct {
	From  int    `json:"from"`
	Kind  string `json:"kind"` // honest otherhash replay dup nonmember garbage badbeacon badblock
	Arg   int    `json:"arg,omitempty"`
	Early bool   `json:"early,omitempty"` // arrives before the cast message is accepted
}

type c15Plan struct {
	Seed      uint64   `json:"seed"`
	N         int      `json:"n"`
	Msgs      []c15Msg `json:"msgs"`
	RandSeed  uint64   `json:"rand_seed"`
	SchedSeed uint64   `json:"sched_seed"`
	// Prev: before the block under test the same verifier process has signed an EARLIER block of
	// the same group with every member honest (process history: verification caches, stores)
	Prev bool `json:"prev,omitempty"`
	// Proc: messages travel through the processor's party bookkeeping (processor_party.go): early ones are
	// parked under the block hash until the party has taken that key, later ones are routed to the party
	Proc     bool   `json:"proc,omitempty"`
	ProcSeed uint64 `json:"proc_seed,omitempty"`
}

type c15 struct{}

func init() { runner.Register(c15{}) }

func (c15) ID() string    { return "C15" }
func (c15) Level() string { return "exploration" }

func (c15) Budget(tier string) runner.Budget {
	if tier == "thorough" {
		return runner.Budget{Plans: 30000, PlansPerProc: 20, Wall: 14 * time.Minute}
	}
	return runner.Budget{Plans: 5000, PlansPerProc: 40, Wall: 45 * time.Second, MinPlans: 2600}
}

func (c15) Describe() runner.Description {
	return runner.Description{
		Rule:        "each plan: group of n in [3,10] members keyed by the node's DKG code; a real proposed block; the verifier (member 0) runs the real signing party; every other member sends one or more verify messages in a seeded arrival order, some before the proposal is accepted (stored-message replay, which iterates a map): honest (share over this block's hash + beacon share over the previous beacon), or Byzantine: a valid signature over a DIFFERENT hash filed under this block's hash, another member's share under their own id, their own share twice, a share from a non-member id, garbage/identity points, valid block share with invalid beacon share and vice versa; in 40% of the plans the same verifier process has first signed an EARLIER block of the group with all members honest, and a Byzantine member replays its valid share (block or beacon) of that earlier block inside a message naming this block. In half of the plans the messages travel through the processor's party bookkeeping (real OnMessageVerify / loadOrNewSignParty: early messages are parked under the block hash and handed over, in a seeded order, once the party has taken that key), including forged messages that merely NAME another member as signer, a faulty member announcing its own share public key under another member's id before signing as that member, signer ids longer than 32 bytes, and a burst of 11-16 distinct junk messages from one faulty member parked before the proposal is accepted; an error raised on the party's error channel counts as the end of the party (the processor tears it down). After every delivery the block-signature and beacon share sets must contain only (member -> that member's valid share for this block hash / previous beacon), at most one per member; once the proposal is accepted and k honest members' messages are in (any order, any Byzantine traffic from at most n-k members interleaved) the party must have finalised within that delivery with a block signature and beacon that verify under the group public key (bounded liveness: 0 further steps). distinct_nontrivial = distinct (n, Byzantine pattern, early/late pattern) triples with at least one Byzantine message.",
		Assumptions: []string{"round0's own acceptance checks (castor key, VRF, group selection, time window) are not part of C15: the party is positioned after them by an in-package driver", "at most n-k members are Byzantine when liveness is asserted; set-content checks hold for any number"},
		Real:        []string{"consensus/logical SignParty, round1 (share collection), round2 (finalizer), stored-message replay", "consensus/net verify-message decoder", "consensus/groupsig (verify, recover)", "group_create.GetMemberSignPubKey + access.JoinedGroupStorage on the node's store", "core chain (GenerateBlock, AddBlockOnChain) of a booted node"},
		Stub:        []string{"other group members (scripted)", "consensus network server (recording fake)", "ConsensusHelper of the chain"},
		FaultKinds:  []string{"byz_other_hash", "byz_replay_member", "byz_duplicate", "byz_non_member", "byz_garbage", "byz_bad_beacon", "byz_bad_block_share", "byz_replay_old_block_share", "prior_block_signed_in_process", "byz_forged_signer_name", "byz_rekey_other_member", "byz_malformed_signer_id", "processor_level_parking", "early_arrival", "map_order_seed"},
	}
}

var c15Kinds = []string{"otherhash", "otherblock", "replay", "dup", "nonmember", "garbage", "badbeacon", "badblock", "oldshare", "forgename", "rekey", "longid"}

func (c15) Gen(seed uint64, tier string) json.RawMessage {
	r := simrt.NewRand(seed)
	p := c15Plan{Seed: seed, N: r.Range(3, 10), RandSeed: r.U64(), SchedSeed: r.U64()}
	if r.Chance(0.4) {
		p.N = r.Range(3, 6)
	}
	p.Prev = r.Chance(0.4)
	p.Proc, p.ProcSeed = r.Chance(0.5), r.U64()
	k := (p.N*51 + 99) / 100
	maxByz := p.N - k
	byz := map[int]bool{}
	nb := r.Range(0, maxByz)
	if r.Chance(0.15) {
		nb = r.Range(0, p.N-1) // more Byzantine members than liveness tolerates: set-content checks only
	}
	for len(byz) < nb {
		byz[r.Range(1, p.N-1)] = true
	}
	var msgs []c15Msg
	for j := 0; j < p.N; j++ {
		if byz[j] {
			for c := r.Range(1, 3); c > 0; c-- {
				msgs = append(msgs, c15Msg{From: j, Kind: c15Kinds[r.Intn(len(c15Kinds))], Arg: r.Intn(1000)})
			}
			if r.Chance(0.3) {
				msgs = append(msgs, c15Msg{From: j, Kind: "honest"})
			}
		} else if j == 0 && r.Chance(0.5) {
			continue // the verifier's own share may or may not come back to it
		} else {
			msgs = append(msgs, c15Msg{From: j, Kind: "honest"})
			if r.Chance(0.15) {
				msgs = append(msgs, c15Msg{From: j, Kind: "dup"})
			}
		}
	}
	pEarly := r.Float() * 0.6
	for _, i := range r.Perm(len(msgs)) {
		m := msgs[i]
		m.Early = r.Chance(pEarly)
		p.Msgs = append(p.Msgs, m)
	}
	if len(byz) > 0 && r.Chance(0.12) {
		// one faulty member floods the verifier with distinct junk messages for this block BEFORE the proposal
		// is accepted (they are parked under the block hash), then the others' shares arrive, early too
		jb := 0
		for j := 1; j < p.N; j++ {
			if byz[j] {
				jb = j
				break
			}
		}
		var burst []c15Msg
		for i, c := 0, r.Range(11, 16); i < c; i++ {
			burst = append(burst, c15Msg{From: jb, Kind: "garbage", Arg: 3000 + 3*i + 1, Early: true})
		}
		for i := range p.Msgs {
			if p.Msgs[i].Kind == "honest" && r.Chance(0.8) {
				p.Msgs[i].Early = true
			}
		}
		p.Msgs = append(burst, p.Msgs...)
		p.Proc, p.ProcSeed = true, r.U64()
	}
	b, _ := json.Marshal(p)
	return b
}

// fake consensus network server: records, never sends
type c15Net struct{ calls []string }

func (f *c15Net) SendGroupPingMessage(msg *model.CreateGroupPingMessage, receiver groupsig.ID) {}
func (f *c15Net) SendGroupPongMessage(msg *model.CreateGroupPongMessage, groupId string, belongGroup bool) {
}
func (f *c15Net) SendCreateGroupRawMessage(msg *model.ParentGroupConsensusMessage, belongGroup bool) {
}
func (f *c15Net) SendCreateGroupSignMessage(msg *model.ParentGroupConsensusSignMessage, parentGid groupsig.ID) {
}
func (f *c15Net) SendGroupInitMessage(grm *model.GroupInitMessage) {}
func (f *c15Net) SendKeySharePiece(spm *model.SharePieceMessage)   {}
func (f *c15Net) SendSignPubKey(spkm *model.SignPubKeyMessage)     {}
func (f *c15Net) BroadcastGroupInfo(cgm *model.GroupInitedMessage) {}
func (f *c15Net) SendCandidate(ccm *model.ConsensusCastMessage)    {}
func (f *c15Net) SendVerifiedCast(cvm *model.ConsensusVerifyMessage, receiver groupsig.ID) {
	f.calls = append(f.calls, "verified-cast")
}
func (f *c15Net) BroadcastNewBlock(cbm *model.ConsensusBlockMessage) {
	f.calls = append(f.calls, "new-block")
}
func (f *c15Net) JoinGroupNet(groupId string)                                         {}
func (f *c15Net) ReleaseGroupNet(groupIdentifier string)                              {}
func (f *c15Net) ReqSharePiece(msg *model.ReqSharePieceMessage, receiver groupsig.ID) {}
func (f *c15Net) ResponseSharePiece(msg *model.ResponseSharePieceMessage, receiver groupsig.ID) {
}
func (f *c15Net) AskSignPkMessage(msg *model.SignPubkeyReqMessage, receiver groupsig.ID) {
	f.calls = append(f.calls, "ask-sign-pk")
}
func (f *c15Net) AnswerSignPkMessage(msg *model.SignPubKeyMessage, receiver groupsig.ID) {}

var _ cnet.NetworkServer = (*c15Net)(nil)

func c15Wire(blockHash, dataHash common.Hash, dataSign, randomSign, member []byte) []byte {
	v := int32(common.ConsensusVersion)
	m := &middleware_pb.ConsensusVerifyMessage{BlockHash: blockHash.Bytes(), RandomSign: randomSign,
		Sign: &middleware_pb.SignData{DataHash: dataHash.Bytes(), DataSign: dataSign, SignMember: member, Version: &v}}
	b, err := proto.Marshal(m)
	if err != nil {
		panic(runner.InfraError{Msg: "c15 wire: " + err.Error()})
	}
	return b
}

func (c15) Exec(raw json.RawMessage, st *simrt.Stats, log *simrt.Log) *simrt.Violation {
	var p c15Plan
	if err := json.Unmarshal(raw, &p); err != nil {
		panic(runner.InfraError{Msg: "bad plan: " + err.Error()})
	}
	c13Init()
	access.SimInitLogger()
	simmap.Seed = simrt.Mix(p.Seed, 0x6d6170) | 1
	st.Fault("map_order_seed")
	rnd := simrt.NewRand(p.RandSeed)
	base.SimRandRead = func(b []byte) { copy(b, rnd.Bytes(len(b))) }
	defer func() { base.SimRandRead = nil; simmap.Seed = 0 }()
	viol := func(ev int, clause, where, f string, a ...interface{}) *simrt.Violation {
		return simrt.Violationf("C15", clause, where, ev, f, a...)
	}
	st.Evaluations++

	disk := simdisk.NewDisk()
	nd := node.Boot(disk, node.ForksLatestSync, false)
	n := p.N
	// verifier identity and group keys from the node's own DKG code
	self := model.NewSelfMinerInfo(*node.HarnessKeys[0].SK)
	ids := make([]groupsig.ID, n)
	members := make([]*group_create.SimDKGMember, n)
	for i := 0; i < n; i++ {
		if i == 0 {
			ids[i] = self.ID
		} else {
			h := sha256.Sum256([]byte(fmt.Sprintf("c15-member-%d-%d", p.Seed, i)))
			ids[i] = groupsig.DeserializeID(h[:])
		}
		sec := sha256.Sum256([]byte(fmt.Sprintf("c15-secret-%d-%d", p.Seed, i)))
		members[i] = group_create.SimNewDKGMember(ids[i], sec[:], n)
	}
	for d := range members {
		deal := members[d].Deal(ids)
		for r := range members {
			members[r].Receive(ids[d], deal[ids[r].GetHexString()])
		}
	}
	k := members[0].Threshold()
	gpk := members[0].GroupPubKey()
	sks := make([]groupsig.Seckey, n)
	for i, m := range members {
		sks[i] = m.SignSecKey()
		if !m.GroupPubKey().IsEqual(gpk) || !sks[i].IsValid() {
			panic(runner.InfraError{Msg: "c15: DKG did not complete"})
		}
	}
	gid := *groupsig.NewIDFromPubkey(gpk)
	ginit := &model.GroupInitInfo{GroupHeader: &types.GroupHeader{Extends: "c15", CreateHeight: 1}, GroupMembers: ids}
	group := model.NewGroupInfo(gid, gpk, ginit)
	// the verifier's joined-group record on the node's store
	storage := access.NewJoinedGroupStorage()
	jg := model.NewJoindGroupInfo(sks[0], gpk, ginit.GroupHash())
	storage.JoinGroup(jg, self.ID)
	for i := range ids {
		storage.AddMemberSignPk(ids[i], gid, *groupsig.GeneratePubkey(sks[i]))
	}
	fnet := &c15Net{}
	group_create.SimInstall(self, storage, fnet)

	// process history: an earlier block of the same group signed by this verifier with all members honest
	var prevHash common.Hash
	var prevBeacon []byte
	if p.Prev {
		tx0 := node.TransferTx(node.Funded[1], 0, map[string]string{node.Account(6): "2"}, fmt.Sprintf("c15p-%d", p.Seed))
		blk0, err := nd.CastBlock(node.BlockSpec{QN: 1, PV: 4, TimeMs: 3000, Txs: []*types.Transaction{tx0}})
		if err != nil {
			panic(runner.InfraError{Msg: "c15 cast (previous block): " + err.Error()})
		}
		pre0 := nd.Chain.TopBlock()
		bh0 := *blk0.Header
		bh0.GroupId = gid.Serialize()
		bh0.Signature, bh0.Random = nil, nil
		party0 := logical.SimNewSignParty(&bh0, pre0, group, self.ID, nd.Chain, fnet, storage)
		res0 := simsched.Run(simsched.Options{Seed: p.SchedSeed ^ 0x70726576, Policy: "random", MaxPreempt: -1, MaxSteps: 400000}, []string{"verifier"}, []func(){func() {
			party0.AcceptProposal()
			for j := 0; j < n; j++ {
				w := c15Wire(bh0.Hash, bh0.Hash, groupsig.Sign(sks[j], bh0.Hash.Bytes()).Serialize(), groupsig.Sign(sks[j], pre0.Random).Serialize(), ids[j].Serialize())
				if cvm, err := cnet.UnMarshalConsensusVerifyMessage(w); err == nil && cvm != nil {
					party0.Update(cvm)
				}
			}
		}})
		if res0.Panic != nil {
			return viol(-1, "host-panic", "signing-party", "%v", res0.Panic)
		}
		if !party0.Finished() {
			return viol(-1, "valid-block-not-finalised", "previous-block", "n=%d: all %d members' honest shares for the earlier block were delivered but the party did not finalise (round %d, error %v)", n, n, party0.Round(), party0.TakeErr())
		}
		prevHash, prevBeacon = bh0.Hash, pre0.Random
		st.Fault("prior_block_signed_in_process")
	}

	// a real proposed block
	tx := node.TransferTx(node.Funded[0], 0, map[string]string{node.Account(5): "3"}, fmt.Sprintf("c15-%d", p.Seed))
	blk, err := nd.CastBlock(node.BlockSpec{QN: 1, PV: 5, TimeMs: 5000, Txs: []*types.Transaction{tx}})
	if err != nil {
		panic(runner.InfraError{Msg: "c15 cast: " + err.Error()})
	}
	preBH := nd.Chain.TopBlock()
	bh := *blk.Header
	bh.GroupId = gid.Serialize()
	bh.Signature, bh.Random = nil, nil
	party := logical.SimNewSignParty(&bh, preBH, group, self.ID, nd.Chain, fnet, storage)
	var proc *logical.SimProcessor
	if p.Proc {
		proc = logical.SimNewProcessor(&self, storage, nd.Chain, fnet)
		st.Fault("processor_level_parking")
	}
	realKey := common.ToHex(bh.Hash.Bytes())

	blockShare := func(i int) groupsig.Signature { return groupsig.Sign(sks[i], bh.Hash.Bytes()) }
	beaconShare := func(i int) groupsig.Signature { return groupsig.Sign(sks[i], preBH.Random) }
	otherHash := common.BytesToHash(common.Sha256([]byte(fmt.Sprintf("other-%d", p.Seed))))

	build := func(i int, m c15Msg) []byte {
		j := m.From % n
		idb := ids[j].Serialize()
		bs, rs := blockShare(j).Serialize(), beaconShare(j).Serialize()
		switch m.Kind {
		case "honest", "dup":
			if m.Kind == "dup" {
				st.Fault("byz_duplicate")
			}
			return c15Wire(bh.Hash, bh.Hash, bs, rs, idb)
		case "otherhash":
			st.Fault("byz_other_hash")
			return c15Wire(bh.Hash, otherHash, groupsig.Sign(sks[j], otherHash.Bytes()).Serialize(), rs, idb)
		case "otherblock":
			// message and share consistently name ANOTHER hash (e.g. the party's earlier key), yet reach this party
			st.Fault("byz_other_hash")
			return c15Wire(otherHash, otherHash, groupsig.Sign(sks[j], otherHash.Bytes()).Serialize(), rs, idb)
		case "replay":
			st.Fault("byz_replay_member")
			o := (j + 1 + m.Arg%(n-1)) % n
			return c15Wire(bh.Hash, bh.Hash, blockShare(o).Serialize(), beaconShare(o).Serialize(), idb)
		case "nonmember":
			st.Fault("byz_non_member")
			h := sha256.Sum256([]byte(fmt.Sprintf("stranger-%d-%d", p.Seed, m.Arg)))
			sid := groupsig.DeserializeID(h[:])
			sk := groupsig.NewSeckeyFromRand(base.RandFromBytes(h[:]))
			return c15Wire(bh.Hash, bh.Hash, groupsig.Sign(*sk, bh.Hash.Bytes()).Serialize(), groupsig.Sign(*sk, preBH.Random).Serialize(), sid.Serialize())
		case "garbage":
			st.Fault("byz_garbage")
			g := simrt.NewRand(uint64(m.Arg) + p.Seed).Bytes(len(bs))
			if m.Arg%3 == 0 {
				g = make([]byte, len(bs)) // all zero
			}
			return c15Wire(bh.Hash, bh.Hash, g, rs, idb)
		case "oldshare":
			// the member's VALID share from the earlier block, replayed in a message that names this block
			if !p.Prev {
				st.Fault("byz_other_hash")
				return c15Wire(bh.Hash, otherHash, groupsig.Sign(sks[j], otherHash.Bytes()).Serialize(), rs, idb)
			}
			st.Fault("byz_replay_old_block_share")
			if m.Arg%2 == 0 {
				return c15Wire(bh.Hash, bh.Hash, groupsig.Sign(sks[j], prevHash.Bytes()).Serialize(), rs, idb)
			}
			return c15Wire(bh.Hash, bh.Hash, bs, groupsig.Sign(sks[j], prevBeacon).Serialize(), idb)
		case "forgename":
			// a forged message that NAMES another member as its signer (anybody can send that)
			st.Fault("byz_forged_signer_name")
			o := (j + 1 + m.Arg%(n-1)) % n
			g := simrt.NewRand(uint64(m.Arg)*31 + p.Seed).Bytes(len(bs))
			return c15Wire(bh.Hash, bh.Hash, g, groupsig.Sign(sks[j], []byte("forged")).Serialize(), ids[o].Serialize())
		case "rekey":
			// the faulty member first announces ITS share public key in another member's name (the table of share
			// public keys keeps the first announcement), then signs as that member
			st.Fault("byz_rekey_other_member")
			o := (j + 1 + m.Arg%(n-1)) % n
			storage.AddMemberSignPk(ids[o], gid, *groupsig.GeneratePubkey(sks[j]))
			return c15Wire(bh.Hash, bh.Hash, bs, rs, ids[o].Serialize())
		case "longid":
			// a signer id that is not an id at all (longer than 32 bytes): the message must simply be ignored
			st.Fault("byz_malformed_signer_id")
			return c15Wire(bh.Hash, bh.Hash, bs, rs, simrt.NewRand(uint64(m.Arg)+p.Seed).Bytes(33+m.Arg%16))
		case "badbeacon":
			st.Fault("byz_bad_beacon")
			return c15Wire(bh.Hash, bh.Hash, bs, groupsig.Sign(sks[j], []byte("not the beacon")).Serialize(), idb)
		case "badblock":
			st.Fault("byz_bad_block_share")
			return c15Wire(bh.Hash, bh.Hash, groupsig.Sign(sks[j], []byte("not the block")).Serialize(), rs, idb)
		}
		return nil
	}

	checkSets := func(ev int) *simrt.Violation {
		g, r := party.Shares()
		for idhex, sig := range g {
			j := -1
			for x := range ids {
				if ids[x].GetHexString() == idhex {
					j = x
				}
			}
			if j < 0 {
				return viol(ev, "share-from-non-member-counted", "block-signature-set", "the recovery set holds a share filed under %s, which is not a group member", idhex[:12])
			}
			if !bytes.Equal(sig.Serialize(), blockShare(j).Serialize()) {
				where := "block-signature-set"
				if bytes.Equal(sig.Serialize(), groupsig.Sign(sks[j], otherHash.Bytes()).Serialize()) {
					where = "share-over-another-hash"
				}
				return viol(ev, "invalid-share-counted", where, "the recovery set holds, for member %d, a share that is not that member's signature over this block's hash", j)
			}
		}
		for idhex, sig := range r {
			j := -1
			for x := range ids {
				if ids[x].GetHexString() == idhex {
					j = x
				}
			}
			if j < 0 || !bytes.Equal(sig.Serialize(), beaconShare(j).Serialize()) {
				return viol(ev, "invalid-share-counted", "beacon-set", "the beacon set holds an entry that is not the sender's valid share over the previous beacon (id %s)", idhex[:12])
			}
		}
		return nil
	}

	honestIn := map[int]bool{}
	byzMembers := map[int]bool{}
	hasByz := false
	pattern := fmt.Sprintf("%d|", n)
	for _, m := range p.Msgs {
		if m.Kind != "honest" && m.Kind != "dup" {
			byzMembers[m.From%n] = true
			hasByz = true
		}
		pattern += fmt.Sprintf("%s%v,", m.Kind[:2], m.Early)
	}
	accepted := false
	var taskViol *simrt.Violation
	finishedAt := -1
	dead := false // an error on the party's error channel makes the processor tear the party down
	var deadErr error
	noteErr := func() {
		if e := party.TakeErr(); e != nil && !dead && !party.Finished() {
			dead, deadErr = true, e
		}
	}
	deliver := func(i int, m c15Msg) {
		if dead {
			// the processor answers "party already done": nothing reaches the party any more - but the honest
			// member did send its share
			if m.Kind == "honest" || m.Kind == "dup" {
				honestIn[m.From%n] = true
			}
			return
		}
		wire := build(i, m)
		cvm, err := cnet.UnMarshalConsensusVerifyMessage(wire)
		if err != nil || cvm == nil {
			return
		}
		if proc != nil {
			proc.OnMessageVerify(cvm) // parks it (no party under this hash yet) or routes it to the party
		} else {
			party.Update(cvm)
		}
		st.Ops++
		if m.Kind == "honest" || m.Kind == "dup" {
			honestIn[m.From%n] = true
		}
		log.Add("%d from=%d kind=%s early=%v round=%d honest=%d", i, m.From%n, m.Kind, m.Early, party.Round(), len(honestIn))
		if v := checkSets(i); v != nil && taskViol == nil {
			taskViol = v
		}
		if finishedAt < 0 && party.Finished() {
			finishedAt = i
		}
		noteErr()
	}
	run := func() {
		for i, m := range p.Msgs {
			if m.Early {
				st.Fault("early_arrival")
				deliver(i, m)
			}
		}
		party.AcceptProposal()
		accepted = true
		if proc != nil {
			// the party takes the block hash as its key; what was parked for it is delivered (seeded order)
			parked := proc.Adopt(party, realKey)
			pr := simrt.NewRand(p.ProcSeed)
			for _, x := range pr.Perm(len(parked)) {
				party.Update(parked[x])
				if v := checkSets(-1); v != nil && taskViol == nil {
					taskViol = v
				}
				if finishedAt < 0 && party.Finished() {
					finishedAt = -2
				}
			}
		}
		if v := checkSets(-1); v != nil && taskViol == nil {
			taskViol = v
		}
		if finishedAt < 0 && party.Finished() {
			finishedAt = -2
		}
		for i, m := range p.Msgs {
			if !m.Early {
				deliver(i, m)
			}
		}
	}
	res := simsched.Run(simsched.Options{Seed: p.SchedSeed, Policy: "random", MaxPreempt: -1, MaxSteps: 400000}, []string{"verifier"}, []func(){run})
	if res.Panic != nil {
		return viol(-1, "host-panic", "signing-party", "%v", res.Panic)
	}
	if taskViol != nil {
		return taskViol
	}
	_ = accepted
	// bounded liveness: k honest members in => finalised, signature and beacon valid
	perr := party.TakeErr()
	if deadErr != nil {
		perr = deadErr
	}
	if len(honestIn) >= k && len(byzMembers) <= n-k {
		st.Probe("liveness_asserted")
		if finishedAt == -1 {
			where := "no-progress"
			if perr != nil {
				where = "party-error"
			}
			return viol(len(p.Msgs), "valid-block-not-finalised", where, "n=%d k=%d: %d honest members' shares were delivered (Byzantine members: %d) but the party did not finalise (round %d, error %v)", n, k, len(honestIn), len(byzMembers), party.Round(), perr)
		}
		h := party.Header()
		if !groupsig.VerifySig(gpk, h.Hash.Bytes(), *groupsig.DeserializeSign(h.Signature)) {
			return viol(len(p.Msgs), "final-signature-invalid", "block-signature", "the finalised block signature does not verify under the group public key")
		}
		if !groupsig.VerifySig(gpk, preBH.Random, *groupsig.DeserializeSign(h.Random)) {
			return viol(len(p.Msgs), "final-signature-invalid", "beacon", "the finalised beacon value does not verify under the group public key")
		}
	}
	st.State(simrt.HashString(pattern))
	if hasByz {
		st.Nontrivial(simrt.HashString(pattern))
	}
	return nil
}

func (c15) Shrink(raw json.RawMessage) []json.RawMessage {
	var p c15Plan
	json.Unmarshal(raw, &p)
	var out []json.RawMessage
	emit := func(q c15Plan) {
		b, _ := json.Marshal(q)
		out = append(out, b)
	}
	for i := range p.Msgs {
		q := p
		q.Msgs = append(append([]c15Msg{}, p.Msgs[:i]...), p.Msgs[i+1:]...)
		emit(q)
	}
	for i, m := range p.Msgs {
		if m.Early {
			q := p
			q.Msgs = append([]c15Msg{}, p.Msgs...)
			q.Msgs[i].Early = false
			emit(q)
		}
	}
	return out
}
